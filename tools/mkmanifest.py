#!/usr/bin/env python3
"""Regenerates /verif/MANIFEST.json from the table below; a property is listed as a
check only if sim/checks/<id>.py exists."""
import json, os
V = os.path.dirname(os.path.dirname(os.path.abspath(__file__)))

CLAIMED = {
 "C09": dict(engine="effects", cat="fault_enumeration", ref="5.5",
   technique="deterministic simulation: seeded generated try/with programs whose every dynamic effect point is a fault site; every single fault enumerated, fault pairs sampled; reference interpreter oracle",
   text="For each generated try/with program every single injected exception (position x class) is executed and compared against a reference interpreter (value/escaping exception, effect trace, outer variables); pairs of faults are sampled. Programs include closures, statement-bearing comprehensions, coroutines with mixed sync/async managers and variable-hygiene templates. The fault space per program is enumerated, the programs are sampled.",
   note="Trusts the reference interpreter, which inherits clause selection/finally/propagation from the host Python's own try/with; programs are sampled, not enumerated."),
 "C13": dict(engine="procs", cat="exploration", ref="5.6",
   technique="deterministic simulation over the process-launch seam: same batch compiled in fresh interpreters under a seeded set of PYTHONHASHSEED values, AST/bytecode digests diffed",
   text="Each generated source (biased to constructs that iterate over name sets) and the repo's own Hy sources are compiled in fresh interpreters under several hash seeds; all AST dumps and canonical bytecode digests must agree.",
   note="Only hash-seed (and address) nondeterminism is swept; agreement over s seeds is evidence, not proof."),
 "C15": dict(engine="world", cat="exploration", ref="5.7",
   technique="deterministic simulation of a scratch filesystem world: seeded histories of writes, simulated mtime clock, restarts, pyc loss/truncation and bytecode-write faults, checked against by-construction expected module values and macro tables",
   text="Seeded histories over a scratch module world (source import, cached import, touch, pyc deletion/truncation, failing or crashing bytecode writes, -B) with an oracle on module values, required-macro availability and which load path ran; package worlds (submodule fallback, relative and transitive requires); extension rule checked across suffixes incl. one registered after import.",
   note="Restart is a sys.modules purge (validated against real subprocesses in the thorough tier); pyc body corruption and same-mtime-same-size edits are CPython limitations and excluded."),
 "C16": dict(engine="world", cat="exploration", ref="5.8",
   technique="deterministic simulation of compile/run/cached-run histories with an effect log split by the loader's compile phase, against a reference staging model",
   text="Generated modules with eval-when-compile / eval-and-compile / do-mac bodies that log; histories of source loads, cached loads, touches and pyc faults; compile-phase and run-phase effect logs must equal the reference staging model at every step. Staging forms also sit inside 14 enclosing constructs and after early returns; the same text is also imported from zip archives and run as a script through run_path.",
   note="Phase attribution via a wrapper around the loader's get_code; staging forms are not nested in each other."),
 "C19": dict(engine="stream", cat="fault_enumeration", ref="5.9",
   technique="deterministic simulation of a failing input stream: EOF injected at every offset of seeded generated texts, through hy.read_many and the REPL's line feeder",
   text="For every generated well-formed text, EOF is injected at every character offset; the generator's offset map says whether the cut is inside an open construct (PrematureEndOfInput required, REPL asks for more) or between forms (no error).",
   note="Texts are sampled; cuts inside non-string atoms are judged only when every prefix is itself a valid atom."),
 "C28": dict(engine="crashpoints+history", cat="exploration", ref="5.2",
   technique="deterministic simulation: seeded histories of hy.repr calls with programmable failing printers and exceptions injected at the k-th line event inside printer frames; each result compared with the same call in a pristine forked process",
   text="Seeded histories of hy.repr calls (models, containers, cycles, registered printers that recurse, re-enter, catch or raise) with crash points injected inside printers; every successful call must give the text the same call gives in a pristine process.",
   note="Asynchronous exceptions inside hy-repr's own bookkeeping lines are not injected (the property promises recovery from printers that raise)."),
 "C29": dict(engine="history", cat="exploration", ref="5.3",
   technique="deterministic simulation: seeded histories of promotions with failing (self-referential / unrepresentable) inputs interleaved, checked op by op against an independent reference promoter",
   text="Seeded histories of as_model calls with self-referential and unrepresentable values interleaved and follow-ups biased to land right after a failure (same object, shared sub-objects, address reuse), against an independent reference promoter, eval round trip and idempotence.",
   note="No relaxation after failures; NaN excluded (not equal to itself)."),
 "C35": dict(engine="history+world", cat="exploration", ref="5.11",
   technique="deterministic simulation: seeded op histories (defmacro/require/pragma/calls at module and local scope, failing ops) on one persistent module against a reference namespace model",
   text="Seeded histories of hy.eval ops on one persistent module with macro libraries on disk; a reference namespace model predicts each call's resolution, the module macro table and shadow warnings after every op, including after failed ops.",
   note="Macro libraries live in a scratch world; warnings observed through warnings.catch_warnings."),
 "C37": dict(engine="history+stream", cat="exploration", ref="5.12",
   technique="deterministic simulation: seeded streams of defreader/uses/requires over several modules and readers with lazily read streams whose reads are counted, failing reader macros and failing forms mid-stream, against a reference visibility model",
   text="Seeded streams across 2-3 modules and explicit readers, with read/eval interleaving observed through a counting stream; a visibility model predicts each use (models or 'not defined'), including after failures, and isolation probes run after every op.",
   note="Front ends: lazy read_many + hy.eval, read one/eval one, module import, REPL."),
 "C38": dict(engine="threads", cat="exploration", ref="5.1",
   technique="deterministic simulation: real threads under a seeded baton-passing scheduler pre-empting at every bytecode of gensym and every lock operation; black-box oracle on returned symbols",
   text="2-4 real threads call hy.gensym under a seeded scheduler that decides every pre-emption at bytecode granularity; returned symbols must be pairwise distinct, _hy_-prefixed, mangle-stable Symbols; arguments include objects whose text conversion raises or re-enters gensym, and label pairs with equal manglings; a lock left held is a deadlock violation. Thousands of distinct interleavings per quick run; failures replay from the recorded decision list.",
   note="Sampling, not enumeration, of the interleaving space; pre-emption only at Python bytecode boundaries; the lock is a simulated lock with the same API."),
 "C39": dict(engine="crashpoints+effects", cat="exploration", ref="5.4",
   technique="deterministic simulation: seeded histories of hy.eval calls on shared dicts with exceptions injected at the k-th effect of evaluated code, inside macro bodies, in the reader, and at the k-th line event inside hy's own frames",
   text="Seeded histories of hy.eval calls sharing dicts with/without a prior hy entry; faults at run-time effects, compile-time bodies, reader errors and sampled internal crash points; after every call the hy entry must be exactly as before and the value must be the last form's.",
   note="Internal crash points are sampled per call except inside hy.eval's own entry frames, which are enumerated."),
 "C40": dict(engine="repl", cat="exploration", ref="5.10",
   technique="deterministic simulation of the REPL as a stateful server: seeded line sessions fed through raw_input with failing inputs of every class and EOF, against a script evaluator and a register model",
   text="Seeded sessions through the real REPL.run() with scripted terminal input; continuation prompts, printed results, *1 *2 *3 and *e are compared after every input with a script evaluator and a register model that tolerates both readings of a failed input.",
   note="Stand-alone blank lines at the primary prompt are not generated (the statement does not settle them)."),
 "C41": dict(engine="cli", cat="exploration", ref="5.13",
   technique="deterministic simulation of the process boundary: hy_main run in forked children with simulator-owned argv, stdin, cwd, module files and cache state; four invocation modes compared",
   text="Generated programs and argument vectors run through -c, FILE, stdin and -m in forked children on identical scratch worlds (cache cold/warm); stdout, program-written stderr lines, exit status and sys.argv compared across modes and with the documented argv; programs import/require a sibling module, install an excepthook, end by OS errors; the byte-compiled script is run too.",
   note="Configuration sweep; no scheduler decision exists for this property."),
}

NA = {
 "C01": "pure: program -> value/trace is deterministic single-threaded evaluation with no schedule, clock, I/O or fault in the statement; its exception facet is C09",
 "C02": "pure function of operands (short-circuit semantics); nothing for a scheduler or fault injector to decide",
 "C03": "pure function of operator, arity and values",
 "C04": "pure: comprehension results and scoping; gfor laziness is demand order fixed by the consumer's code, not by a scheduler",
 "C05": "pure: argument binding of one call",
 "C06": "static renaming (let); pure function of the program",
 "C07": "static nonlocal/global resolution; pure function of the program",
 "C08": "pure function of pattern and subject (match)",
 "C10": "compile totality is a pure function of the model tree; no inter-compilation state in the statement",
 "C11": "static comparison of one compilation's input and output",
 "C12": "inspection of one compilation's output (reserved names)",
 "C14": "hy2py equivalence is a differential on one program; no nondeterminism, fault or history",
 "C17": "traceback line numbers are a pure function of program and raise position",
 "C18": "reader totality is a pure function of the text (buffered whole before parsing); truncation specifically is C19",
 "C20": "pure reader function (separator/sugar transparency)",
 "C21": "pure reader function (positions)",
 "C22": "pure reader function (numeric literals)",
 "C23": "pure reader function (string literals)",
 "C24": "pure reader/compiler function (f-string evaluation)",
 "C25": "pure single call (repr -> read round trip of models); history dependence is C28",
 "C26": "pure: constructor/syntax agreement",
 "C27": "pure single call (repr round trip of values); history dependence is C28",
 "C30": "pure function of the quoted form",
 "C31": "pure function of the template and substituted values (quasiquote)",
 "C32": "pure function of the name (mangle)",
 "C33": "pure function of the name (unmangle)",
 "C34": "pure function of the name (one name, one identifier)",
 "C36": "pure function of model and macro table (macroexpand step/fixpoint, non-mutation)",
}

def main():
    checks = []
    na = [dict(property_id=k, reason="not applicable to deterministic simulation: " + v) for k, v in sorted(NA.items())]
    for pid, c in sorted(CLAIMED.items()):
        if not os.path.exists(os.path.join(V, "sim", "checks", pid.lower() + ".py")):
            na.append(dict(property_id=pid, reason=f"not claimed yet: simulation check designed (DESIGN.md section {c['ref']}) but not built/committed at this point"))
            continue
        checks.append(dict(
            property_id=pid,
            quick_cmd=f"./verif {pid} --tier quick",
            thorough_cmd=f"./verif {pid} --tier thorough",
            evidence_file=f"/verif/evidence/{pid}.json",
            replay_cmd_template=f"./verif {pid} --replay {{path}}",
            engine=c["engine"],
            level_claimed=dict(category=c["cat"], text=c["text"], design_ref="DESIGN.md section " + c["ref"]),
            level_note=c["note"],
            technique=c["technique"],
        ))
    na.sort(key=lambda d: d["property_id"])
    hooks_commits = []
    hp = os.path.join(V, "hooks_commits.txt")
    if os.path.exists(hp):
        hooks_commits = [l.split()[0] for l in open(hp) if l.strip()]
    m = dict(
        version=1,
        setup_cmd="chmod +x /verif/verif && /venv/bin/python -c 'import sys; assert sys.version_info[:2]==(3,12)'",
        hooks=dict(guard="HY_VERIF_SIM",
                   enable="checks set HY_VERIF_SIM=1 and PYTHONPATH=/repo (sources compiled afresh into a throw-away PYTHONPYCACHEPREFIX); no hook in /repo is needed so far: every seam is reached by late binding from the simulator",
                   baseline_off_cmd="cd /repo && env -u HY_VERIF_SIM /venv/bin/python -m pytest -ra -q -p no:cacheprovider --timeout=900 --continue-on-collection-errors",
                   source_commits=hooks_commits, add_only=True),
        engines=[
            dict(name="kernel", path="sim/kernel.py", serves_properties=sorted(CLAIMED), kind_free_text="seed derivation, run pool, event-log digests, fresh-interpreter determinism recheck, minimiser, replay files, known-findings matcher, evidence writer"),
            dict(name="threads", path="sim/engines/threads.py", serves_properties=["C38"], kind_free_text="baton-passing scheduler over real threads with opcode-level pre-emption and simulated locks"),
        ],
        checks=checks,
        not_applicable=na,
        notes="Technique family: deterministic simulation with fault injection. ./verif <ID> --replay <file> re-executes a minimised failing run; ./verif selftest determinism|sensitivity prove replayability and detection power. Exit 2 = harness fault (never reported as a violation).",
    )
    json.dump(m, open(os.path.join(V, "MANIFEST.json"), "w"), indent=1)
    import subprocess
    try:
        import jsonschema
        jsonschema.validate(m, json.load(open("/root/.vp/MANIFEST.schema.json")))
        print("manifest valid;", len(checks), "checks,", len(na), "not_applicable")
    except ImportError:
        print("jsonschema not available here; wrote manifest without validation")

if __name__ == "__main__":
    main()
