#!/usr/bin/env python3
"""verify_seed.py <worktree> <seed-dir-name> <PROPERTY>: confirm a seeded change (demo fails with it, passes
without, test suite pass count unchanged), then copy it to /verif/seeded/<PROPERTY>-<name>/ with meta.json."""
import json, os, shutil, subprocess, sys
wt, name, prop = sys.argv[1:4]
sd = os.path.join(wt, "_seeded", name)
env = dict(os.environ, PYTHONPATH=wt, PYTHONDONTWRITEBYTECODE="1")
def run(cmd, **kw):
    return subprocess.run(cmd, cwd=wt, env=env, capture_output=True, text=True, **kw)
demo = [f for f in os.listdir(sd) if f.startswith("demo")][0]
def demo_rc():
    return run(["/venv/bin/python", os.path.join("_seeded", name, demo)], timeout=600).returncode
BASE_FAIL = set(json.load(open("/root/.vp/BASELINE.json"))["always_fail"])
def _tid(line):
    # "FAILED tests/test_bin.py::test_x[p] - msg" -> "tests.test_bin::test_x[p]"
    t = line.split(" ", 1)[1].split(" - ")[0].strip()
    f, _, rest = t.partition("::")
    return f[:-3].replace("/", ".") + "::" + rest if f.endswith(".py") else f.replace("/", ".") + "::" + rest
def tests():
    """Last summary line; failures outside the baseline's always-fail set are re-run once alone (the machine is
    loaded, a few REPL / subprocess tests time out under load) and only count when they fail again."""
    p = run(["/venv/bin/python", "-m", "pytest", "-q", "-rf", "-p", "no:cacheprovider", "--timeout=900",
             "--continue-on-collection-errors"], timeout=3600)
    lines = p.stdout.strip().splitlines()
    failed = [l for l in lines if l.startswith("FAILED ")]
    new = [l.split(" ", 1)[1].split(" - ")[0].strip() for l in failed if _tid(l) not in BASE_FAIL]
    summary = lines[-1] if lines else "no output"
    if new:
        p2 = run(["/venv/bin/python", "-m", "pytest", "-q", "-rf", "-p", "no:cacheprovider", "--timeout=900"] + new, timeout=3600)
        still = [l for l in p2.stdout.splitlines() if l.startswith("FAILED ")]
        summary += " | new failures re-run alone: %d of %d fail again %s" % (len(still), len(new), [s.split(" ")[1] for s in still][:4])
        globals()["NEW_FAIL"] = len(still)
    else:
        globals()["NEW_FAIL"] = 0
    return summary
assert run(["git", "status", "--porcelain", "hy"]).stdout.strip() == "", "worktree hy/ not clean"
clean_rc = demo_rc()
ap = run(["git", "apply", os.path.join("_seeded", name, "patch.diff")])
assert ap.returncode == 0, ap.stderr
try:
    bad_rc = demo_rc()
    t = tests()
finally:
    run(["git", "checkout", "--", "hy"])
import re
base = 585 if run(["git", "merge-base", "--is-ancestor", "745bef6", "HEAD"]).returncode == 0 else 584
m = re.search(r"(\d+) passed", t)
ok = clean_rc == 0 and bad_rc == 1 and m is not None and (int(m.group(1)) >= base or NEW_FAIL == 0)
print(f"{prop} {name}: demo clean rc={clean_rc} seeded rc={bad_rc} tests: {t} -> {'OK' if ok else 'REJECT'}")
if ok:
    dst = os.path.join("/verif/seeded", f"{prop}-{name}")
    os.makedirs(dst, exist_ok=True)
    for f in os.listdir(sd):
        shutil.copy(os.path.join(sd, f), dst)
    notes = open(os.path.join(sd, "notes.txt")).read() if os.path.exists(os.path.join(sd, "notes.txt")) else ""
    json.dump({"property": prop, "name": name, "needs_to_manifest": notes.strip(),
               "confirmed": {"demo_exit_without_change": clean_rc, "demo_exit_with_change": bad_rc, "pytest_summary_with_change": t,
                             "how": "tools/verify_seed.py in a scratch git worktree of /repo (git apply, demo, full pytest, git checkout)"},
               "source": "independent sub-agent given only the property text"}, open(os.path.join(dst, "meta.json"), "w"), indent=1)
