#!/bin/bash
# verify_batch.sh PROP [SRC_WORKTREE]: confirm every seeded change under SRC/_seeded in a fresh clean worktree of /repo HEAD
P=$1; SRC=${2:-/tmp/wt/$P}
V=/tmp/wtv/$P-$$
mkdir -p /tmp/wtv
git -C /repo worktree remove --force $V 2>/dev/null
git -C /repo worktree add --detach $V HEAD -q || exit 2
cp -r $SRC/_seeded $V/_seeded
for d in $V/_seeded/*/; do
  n=$(basename $d)
  if [ -d /verif/seeded/$P-$n ]; then echo "$P $n: already kept"; continue; fi
  /venv/bin/python /verif/tools/verify_seed.py $V $n $P 2>&1 | tail -3
done
git -C /repo worktree remove --force $V
