"""Self tests of the machinery.

  verif selftest determinism [PROP ...] [n=200]
      every run index executed (a) in this process in one chunking, (b) in this
      process pool with another worker count / chunking, (c) in a fresh
      interpreter under PYTHONHASHSEED=0 and (d) under PYTHONHASHSEED=12345;
      all digests must agree.
  verif selftest sensitivity [PROP ...]
      for every mutant under /verif/mutants/<PROP>/*.diff: copy the repo to a
      scratch directory, apply the mutant, run the quick check against the copy and
      require a VIOLATION line and exit status 1; delete the copy.
"""
import glob
import json
import multiprocessing as mp
import os
import shutil
import subprocess
import sys
import tempfile
import time
from concurrent.futures import ProcessPoolExecutor

from sim import kernel

ALL = ["C09", "C13", "C15", "C16", "C19", "C28", "C29", "C35", "C37", "C38", "C39", "C40", "C41"]


def _have(prop):
    return os.path.exists(os.path.join(kernel.VERIF_DIR, "sim", "checks", prop.lower() + ".py"))


def _chunk_job(args):
    prop, tier, seed, idxs = args
    return [(r["idx"], r.get("digest"), r.get("harness_fault")) for r in
            kernel._run_chunk((prop, tier, seed, idxs, set()))]


def determinism(props, seed, n):
    rc = 0
    for prop in props:
        t0 = time.time()
        check = kernel._load_check(prop)
        if getattr(check, "DETERMINISM_N", None):
            n_p = min(n, check.DETERMINISM_N)
        else:
            n_p = n
        kernel._worker_init(prop)
        ctx = mp.get_context("fork")
        variants = {}
        for name, workers, ch in (("w3", 3, max(1, n_p // 3)), ("w16", 16, 7)):
            chunks = [list(range(i, min(i + ch, n_p))) for i in range(0, n_p, ch)]
            d = {}
            with ProcessPoolExecutor(workers, mp_context=ctx, initializer=kernel._worker_init, initargs=(prop,)) as ex:
                for rs in ex.map(_chunk_job, [(prop, "quick", seed, c) for c in chunks]):
                    for i, dg, hf in rs:
                        d[i] = dg if not hf else "FAULT:" + hf[-300:]
            variants[name] = d
        # fresh interpreters, reversed order of indices in the second one
        idxs = list(range(n_p))
        for name, hs, order in (("fresh_hs0", 0, idxs), ("fresh_hs12345", 12345, idxs[::-1])):
            parts = [order[i::8] for i in range(8)]
            d = {}
            with ProcessPoolExecutor(8) as ex:
                futs = [ex.submit(kernel.recheck_fresh, prop, "quick", seed, p, hs, 1800) for p in parts if p]
                for f in futs:
                    d.update(f.result())
            variants[name] = d
        base = variants["w3"]
        bad = []
        for name, d in variants.items():
            for i in range(n_p):
                if d.get(i) != base.get(i):
                    bad.append((name, i, base.get(i), d.get(i)))
        faults = [i for i, v in base.items() if str(v).startswith("FAULT")]
        print(f"determinism {prop}: {n_p} run seeds x {len(variants)} executions "
              f"(3 workers, 16 workers, fresh PYTHONHASHSEED=0, fresh PYTHONHASHSEED=12345 reversed order): "
              f"{len(bad)} mismatches, {len(faults)} harness faults, {time.time() - t0:.1f}s")
        for b in bad[:5]:
            print("   MISMATCH", b)
        if bad or faults:
            rc = 2
    return rc


def sensitivity(props, seed, only=None):
    rc = 0
    report = []
    for prop in props:
        mutants = sorted(glob.glob(os.path.join(kernel.VERIF_DIR, "mutants", prop, "*.diff")))
        mutants += sorted(glob.glob(os.path.join(kernel.VERIF_DIR, "seeded", "*", "patch.diff")))
        for m in mutants:
            if "/seeded/" in m:
                meta = os.path.join(os.path.dirname(m), "meta.json")
                try:
                    if prop not in json.load(open(meta)).get("property", ""):
                        continue
                except Exception:
                    continue
            if only and only not in m:
                continue
            scratch = tempfile.mkdtemp(prefix="verif-sens-")
            try:
                dst = os.path.join(scratch, "repo")
                shutil.copytree(kernel.REPO, dst, ignore=shutil.ignore_patterns(".git", "__pycache__", "docs", "*.pyc"))
                p = subprocess.run(["patch", "-p1", "-s", "-i", m], cwd=dst, capture_output=True, text=True)
                if p.returncode != 0:
                    print(f"sensitivity {prop} {os.path.relpath(m, kernel.VERIF_DIR)}: PATCH FAILED {p.stdout} {p.stderr}")
                    rc = 2
                    continue
                env = dict(os.environ)
                env["VERIF_REPO"] = dst
                env["VERIF_SEED"] = str(seed)
                env["VERIF_EVIDENCE_DIR"] = os.path.join(scratch, "evidence")
                env["VERIF_REPLAY_DIR"] = os.path.join(scratch, "replays")
                t0 = time.time()
                p = subprocess.run([os.path.join(kernel.VERIF_DIR, "verif"), prop, "--tier", "quick", "--no-recheck"],
                                   env=env, capture_output=True, text=True, timeout=3600)
                caught = p.returncode == 1 and "VIOLATION property=" + prop in p.stdout
                line = [l for l in p.stdout.splitlines() if l.startswith("  clause=")][:1]
                print(f"sensitivity {prop} {os.path.relpath(m, kernel.VERIF_DIR)}: "
                      f"{'CAUGHT' if caught else 'MISSED rc=%d' % p.returncode} in {time.time() - t0:.0f}s {line}")
                if not caught:
                    print(p.stdout[-1500:], p.stderr[-1500:])
                    rc = 1
                else:
                    # the replay file must reproduce the violation in a fresh process on the changed tree,
                    # and must not on the unchanged tree
                    rf = [l.split("replay=")[1].strip() for l in p.stdout.splitlines() if l.startswith("VIOLATION property=")][0]
                    r1 = subprocess.run([os.path.join(kernel.VERIF_DIR, "verif"), prop, "--replay", rf], env=env,
                                        capture_output=True, text=True, timeout=1800)
                    env2 = dict(env)
                    env2["VERIF_REPO"] = kernel.REPO
                    r2 = subprocess.run([os.path.join(kernel.VERIF_DIR, "verif"), prop, "--replay", rf], env=env2,
                                        capture_output=True, text=True, timeout=1800)
                    ok1 = r1.returncode == 1 and "VIOLATION property=" + prop in r1.stdout
                    ok2 = r2.returncode == 0 and "VIOLATION" not in r2.stdout
                    print(f"    replay on changed tree: {'reproduces' if ok1 else 'DOES NOT REPRODUCE rc=%d' % r1.returncode}; "
                          f"on unchanged tree: {'clean' if ok2 else 'NOT CLEAN rc=%d' % r2.returncode}")
                    if not ok1:
                        print(r1.stdout[-800:], r1.stderr[-800:])
                    if not (ok1 and ok2):
                        rc = 1
                report.append({"property": prop, "mutant": os.path.relpath(m, kernel.VERIF_DIR), "caught": caught,
                               "clause": line[0] if line else None})
            finally:
                shutil.rmtree(scratch, ignore_errors=True)
    return rc


def main(rest, seed):
    if not rest:
        print(__doc__)
        return 2
    what, args = rest[0], rest[1:]
    n = 200
    only = None
    props = []
    for a in args:
        if a.startswith("n="):
            n = int(a[2:])
        elif a.startswith("only="):
            only = a[5:]
        else:
            props.append(a.upper())
    props = [p for p in (props or ALL) if _have(p)]
    if what == "determinism":
        return determinism(props, seed, n)
    if what == "sensitivity":
        return sensitivity(props, seed, only)
    print(__doc__)
    return 2
