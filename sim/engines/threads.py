"""Baton-passing deterministic scheduler for real threads.

Exactly one simulated thread runs at a time; at every yield point (an `opcode`
trace event in frames of the files under test, a `line` event in other traced
frames, every SimLock operation) the running thread asks the chooser which
ready thread runs next, wakes it and parks itself.  The chooser draws from the
run's PRNG (or replays a recorded decision list), so one seed is one exactly
repeatable interleaving.
"""
import _thread
import sys
import threading

_real_allocate = _thread.allocate_lock
_real_RLock = _thread.RLock

_ACTIVE = None  # the Scheduler of the run in progress (one per process at a time)


class SimAbort(BaseException):
    """Unwinds simulated threads when a run is aborted (deadlock / step cap)."""


class SimLock:
    """Drop-in for threading.Lock/RLock. Outside a simulated thread it is a real
    lock; inside one, blocking hands the baton to another thread."""

    def __init__(self, reentrant=False):
        self._reentrant = reentrant
        self._real = _real_RLock() if reentrant else _real_allocate()
        self._owner = None
        self._count = 0
        self._waiters = []

    def _sim(self):
        s = _ACTIVE
        if s is None:
            return None, None
        tid = s.ident2tid.get(_thread.get_ident())
        if tid is None:
            return None, None
        return s, tid

    def acquire(self, blocking=True, timeout=-1):
        s, tid = self._sim()
        if s is None:
            return self._real.acquire(blocking, timeout)
        s.probe("lock_acquire")
        s.yield_point(tid, ("lock", "acquire"))
        while True:
            if s.aborted:
                return True   # the run is over (deadlock / step cap): let the thread finish, results are ignored
            if self._owner is None:
                self._owner = tid
                self._count = 1
                return True
            if self._reentrant and self._owner == tid:
                self._count += 1
                return True
            if not blocking:
                return False
            s.probe("acquire_on_held_lock")
            if timeout is not None and timeout > 0 and s.timed_wait_expires():
                # simulated time: the holder is "stalled" for longer than the caller is willing to wait
                s.probe("timed_acquire_expired")
                s.yield_point(tid, ("lock", "timeout"))
                return False
            self._waiters.append(tid)
            s.block(tid)

    def release(self):
        s, tid = self._sim()
        if s is None:
            return self._real.release()
        if s.aborted:
            self._owner = None
            self._count = 0
            return
        if self._owner is None:
            raise RuntimeError("release unlocked lock")
        if self._reentrant and self._owner != tid:
            raise RuntimeError("cannot release un-acquired lock")
        self._count -= 1
        if self._count <= 0:
            self._owner = None
            self._count = 0
            w, self._waiters = self._waiters, []
            s.unblock(w)
        s.yield_point(tid, ("lock", "release"))

    def locked(self):
        return self._owner is not None or (not self._reentrant and self._real.locked())

    def __enter__(self):
        self.acquire()
        return self

    def __exit__(self, *a):
        self.release()

    def _is_owned(self):
        return self._owner is not None


def _from_threading_internals():
    # threading's own machinery (Thread, Event, Condition ...) must keep real locks
    f = sys._getframe(2)
    return f.f_globals.get("__name__") in ("threading", "concurrent.futures.thread", "queue", "multiprocessing")


def lock_factory(*a, **k):
    if _from_threading_internals():
        return _real_allocate()
    return SimLock(False)


def rlock_factory(*a, **k):
    if _from_threading_internals():
        return _real_RLock()
    return SimLock(True)


class patched_locks:
    """Context manager: while active, `threading.Lock/RLock` and
    `_thread.allocate_lock` hand out SimLocks (used around the first import of the
    module under test, so any lock it creates -- under any name -- is owned by
    the simulator)."""

    def __enter__(self):
        self.saved = (threading.Lock, threading.RLock)
        threading.Lock = lock_factory
        threading.RLock = rlock_factory
        return self

    def __exit__(self, *a):
        threading.Lock, threading.RLock = self.saved


def adopt_module_locks(mod):
    """Second net: replace real lock objects found in a module's globals."""
    n = 0
    lt = type(_real_allocate())
    rt = type(_real_RLock())
    for k, v in list(vars(mod).items()):
        if isinstance(v, lt):
            setattr(mod, k, SimLock(False))
            n += 1
        elif isinstance(v, rt):
            setattr(mod, k, SimLock(True))
            n += 1
        elif v is _real_allocate or (getattr(v, "__name__", "") in ("Lock", "allocate_lock") and getattr(v, "__module__", "") in ("_thread", "threading") and not isinstance(v, type)):
            setattr(mod, k, lock_factory)
            n += 1
        elif v is _real_RLock:
            setattr(mod, k, rlock_factory)
            n += 1
    return n


def warm_trace(fn, trace_files, times=3):
    """CPython 3.12 instruments a code object for per-opcode events the first
    time a tracer asks for them, and the frame in which that happens gets no
    opcode events.  Do that once, outside any simulated run, so every run sees the
    same yield points."""
    counts = []

    def local_trace(frame, event, arg):
        if event == "opcode":
            counts[-1] += 1
        return local_trace

    def global_trace(frame, event, arg):
        if event == "call" and frame.f_code.co_filename in trace_files:
            frame.f_trace_opcodes = True
            return local_trace
        return None

    for _ in range(times):
        counts.append(0)
        sys.settrace(global_trace)
        try:
            fn()
        finally:
            sys.settrace(None)
    return counts


# ---------------------------------------------------------------- choosers


class RandomSwitch:
    def __init__(self, rng, p):
        self.rng, self.p = rng, p

    def choose(self, cur, ready, step):
        if cur in ready and (len(ready) == 1 or self.rng.random() >= self.p):
            return cur
        others = [t for t in ready if t != cur]
        return self.rng.choice(others or ready)


class PCT:
    """Random priorities; at d random steps the running thread drops to lowest."""

    def __init__(self, rng, nthreads, d, horizon):
        self.prio = list(range(nthreads))
        rng.shuffle(self.prio)
        self.prio = {t: p + d for t, p in enumerate(self.prio)}
        self.change = sorted(rng.randrange(1, max(2, horizon)) for _ in range(d))
        self.low = d

    def choose(self, cur, ready, step):
        while self.change and step >= self.change[0]:
            self.change.pop(0)
            if cur is not None:
                self.low -= 1
                self.prio[cur] = self.low
        return max(ready, key=lambda t: self.prio.get(t, 0))


class RoundRobin:
    def __init__(self, n):
        self.n, self.k = max(1, n), 0

    def choose(self, cur, ready, step):
        self.k += 1
        if cur in ready and self.k % self.n:
            return cur
        later = [t for t in ready if cur is None or t > cur]
        return (later or ready)[0]


class Replay:
    def __init__(self, decisions):
        self.d, self.i = decisions, 0

    def choose(self, cur, ready, step):
        t = None
        if self.i < len(self.d):
            t = self.d[self.i]
        self.i += 1
        if t in ready:
            return t
        return cur if cur in ready else ready[0]


def make_chooser(spec, rng, nthreads):
    k = spec["policy"]
    if k == "random":
        return RandomSwitch(rng, spec["p"])
    if k == "pct":
        return PCT(rng, nthreads, spec["d"], spec["horizon"])
    if k == "rr":
        return RoundRobin(spec["n"])
    if k == "replay":
        return Replay(spec["decisions"])
    raise ValueError(k)


# ---------------------------------------------------------------- scheduler


class Scheduler:
    def __init__(self, chooser, max_steps=200000):
        self.chooser = chooser
        self.state = {}
        self.sem = {}
        self.ident2tid = {}
        self.decisions = []
        self.switches = []
        self.steps = 0
        self.max_steps = max_steps
        self.aborted = None
        self.probes = {}
        self.main_done = _real_allocate()
        self.main_done.acquire()
        self.where = {}  # tid -> last yield label (where a parked thread stands)
        self.timeouts = []          # decisions taken for timed waits on a held lock (True = the wait expired)
        self.timeout_plan = None    # replay: list of recorded decisions
        self.timeout_rng = None     # otherwise: seeded PRNG, expiry probability timeout_p
        self.timeout_p = 0.5

    def timed_wait_expires(self):
        if self.timeout_plan is not None:
            d = self.timeout_plan[len(self.timeouts)] if len(self.timeouts) < len(self.timeout_plan) else False
        elif self.timeout_rng is not None:
            d = self.timeout_rng.random() < self.timeout_p
        else:
            d = False
        self.timeouts.append(bool(d))
        return bool(d)

    def probe(self, k, n=1):
        self.probes[k] = self.probes.get(k, 0) + n

    def _ready(self):
        return sorted(t for t, s in self.state.items() if s == "ready")

    def _park(self, tid):
        self.sem[tid].acquire()
        # after an abort (deadlock, step cap) every parked thread is released and simply runs to the end of its
        # body without further scheduling: its results are ignored.  (Unwinding with an exception raised from a
        # trace callback or a lock operation crashed CPython 3.12.1 when the frame had per-opcode tracing on.)

    def _abort(self, why):
        if not self.aborted:
            self.aborted = why
        for t, s in self.state.items():
            if s != "done":
                try:
                    self.sem[t].release()
                except RuntimeError:
                    pass

    def yield_point(self, tid, label):
        if self.aborted:
            return
        self.steps += 1
        if self.steps > self.max_steps:
            self._abort("step cap")
            return
        self.where[tid] = label
        ready = self._ready()
        nxt = self.chooser.choose(tid, ready, self.steps)
        self.decisions.append(nxt)
        if nxt != tid:
            self.switches.append((tid, nxt) + tuple(label))
            if self.on_switch:
                self.on_switch(self, tid, nxt, label)
            self.sem[nxt].release()
            self._park(tid)

    on_switch = None

    def block(self, tid):
        if self.aborted:
            return
        self.state[tid] = "blocked"
        ready = self._ready()
        if not ready:
            self._abort("deadlock")
            return
        nxt = self.chooser.choose(None, ready, self.steps)
        self.decisions.append(nxt)
        self.switches.append((tid, nxt, "blocked"))
        self.sem[nxt].release()
        self._park(tid)

    def unblock(self, tids):
        for t in tids:
            if self.state.get(t) == "blocked":
                self.state[t] = "ready"

    def finish(self, tid):
        self.state[tid] = "done"
        if self.aborted:
            if all(s == "done" for s in self.state.values()):
                self.main_done.release()
            return
        ready = self._ready()
        if ready:
            nxt = self.chooser.choose(None, ready, self.steps)
            self.decisions.append(nxt)
            self.sem[nxt].release()
        elif any(s == "blocked" for s in self.state.values()):
            self._abort("deadlock")
        else:
            self.main_done.release()

    def run(self, bodies, trace_files, trace_line_prefix=None, watchdog_s=30.0):
        """bodies: list of callables (one per simulated thread). Returns when all
        finished. trace_files: code filenames whose frames yield at every opcode;
        frames of files under trace_line_prefix yield at every line."""
        global _ACTIVE
        n = len(bodies)
        for t in range(n):
            self.state[t] = "ready"
            lk = _real_allocate()
            lk.acquire()
            self.sem[t] = lk
        sched = self
        arrived = []
        for t in range(n):
            lk = _real_allocate()
            lk.acquire()
            arrived.append(lk)

        def mk(tid, body):
            def local_trace(frame, event, arg):
                if event == "opcode":
                    sched.yield_point(tid, (frame.f_code.co_name, frame.f_lasti))
                elif event == "line" and not frame.f_trace_opcodes:
                    sched.yield_point(tid, (frame.f_code.co_name, "L%d" % frame.f_lineno))
                return local_trace

            def global_trace(frame, event, arg):
                if event != "call":
                    return None
                fn = frame.f_code.co_filename
                if fn in trace_files:
                    frame.f_trace_opcodes = True
                    return local_trace
                if trace_line_prefix and fn.startswith(trace_line_prefix):
                    return local_trace
                return None

            def runner():
                sched.ident2tid[_thread.get_ident()] = tid
                arrived[tid].release()
                try:
                    sched._park(tid)
                    sys.settrace(global_trace)
                    try:
                        body()
                    finally:
                        sys.settrace(None)
                except SimAbort:
                    pass
                finally:
                    sched.finish(tid)

            return runner

        runners = [mk(t, b) for t, b in enumerate(bodies)]
        _ACTIVE = self
        try:
            POOL.dispatch(runners)
            for lk in arrived:
                lk.acquire()
            first = self.chooser.choose(None, self._ready(), 0)
            self.decisions.append(first)
            self.sem[first].release()
            ok = self.main_done.acquire(True, watchdog_s)
            if not ok:
                self._abort("watchdog: a thread blocked on something the simulator does not own")
                POOL.discard()
                return "watchdog"
            POOL.wait_idle()
        finally:
            _ACTIVE = None
        return self.aborted


class _Pool:
    """Persistent real threads reused by successive runs (thread creation is the
    dominant cost on this VM when 16 processes do it at once)."""

    def __init__(self):
        self.workers = []

    def _spawn(self):
        job = _real_allocate()
        job.acquire()
        idle = _real_allocate()
        idle.acquire()
        w = {"job": job, "idle": idle, "fn": None}

        def loop():
            while True:
                job.acquire()
                fn = w["fn"]
                if fn is None:
                    return
                try:
                    fn()
                finally:
                    w["fn"] = None
                    idle.release()

        th = threading.Thread(target=loop, daemon=True)
        th.start()
        self.workers.append(w)

    def dispatch(self, fns):
        while len(self.workers) < len(fns):
            self._spawn()
        self.active = self.workers[: len(fns)]
        for w, fn in zip(self.active, fns):
            w["fn"] = fn
            w["job"].release()

    def wait_idle(self):
        for w in self.active:
            w["idle"].acquire()

    def discard(self):
        # after a watchdog abort the threads may be stuck: forget them
        self.workers = []


POOL = _Pool()
import os as _os
_os.register_at_fork(after_in_child=POOL.discard)  # threads do not survive fork
