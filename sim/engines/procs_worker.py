"""Runs inside a FRESH interpreter (its own PYTHONHASHSEED): compiles every source
of a batch in the given order and prints one JSON line of digests per source."""
import ast
import hashlib
import json
import marshal
import sys
import types


def canon_code(co):
    """Canonical, hash-seed independent walk of a code object.  (marshal writes a
    constant frozenset in iteration order and sets reference flags by refcount, which
    would make raw .pyc bytes vary for reasons hy does not control.)"""
    consts = []
    for c in co.co_consts:
        if isinstance(c, types.CodeType):
            consts.append(canon_code(c))
        elif isinstance(c, frozenset):
            consts.append(["frozenset", sorted(repr(x) for x in c)])
        else:
            consts.append([type(c).__name__, repr(c)])
    return [co.co_name, co.co_qualname, co.co_argcount, co.co_posonlyargcount, co.co_kwonlyargcount, co.co_nlocals,
            co.co_stacksize, co.co_flags, co.co_code.hex(), list(co.co_names), list(co.co_varnames),
            list(co.co_freevars), list(co.co_cellvars), co.co_firstlineno, co.co_linetable.hex(),
            co.co_exceptiontable.hex(), consts]


def h(x):
    return hashlib.sha256(x if isinstance(x, bytes) else x.encode()).hexdigest()[:20]


def main():
    import hy
    from hy.compiler import hy_compile
    from hy.reader import read_many
    batch = json.load(sys.stdin)
    want_dump = set(batch.get("dump", []))
    out = []
    for i, item in enumerate(batch["sources"]):
        src, name = item["src"], item.get("name", "c13_mod_%d" % i)
        rec = {"i": i}
        try:
            mod = types.ModuleType(name)
            if item.get("file"):
                mod.__file__ = item["file"]
            sys.modules[name] = mod
            try:
                tree = hy_compile(read_many(src, filename=item.get("file") or "<c13>"), mod)
            finally:
                sys.modules.pop(name, None)
            dump = ast.dump(tree, include_attributes=True)
            rec["ast"] = h(dump)
            if i in want_dump:
                rec["dump"] = dump
                rec["unparse"] = ast.unparse(tree)
            code = compile(tree, item.get("file") or "<c13>", "exec")
            rec["code"] = h(json.dumps(canon_code(code)))
            rec["marshal"] = h(marshal.dumps(code))
        except BaseException as e:
            rec["error"] = type(e).__name__ + ": " + str(e)[:200]
        out.append(rec)
    json.dump({"hashseed": sys.flags.hash_randomization and __import__("os").environ.get("PYTHONHASHSEED"), "results": out},
              sys.stdout)


if __name__ == "__main__":
    main()
