"""Crash-point injection: raise an exception at the k-th eligible `line` event.

A dry run (k=None) counts the N eligible line events of an operation; an armed
run raises from the trace function at event k, which CPython delivers as if the
traced line had raised (and un-sets tracing; the engine re-arms per operation).
"""
import sys


class InjectedFault(Exception):
    """Ordinary exception injected by the simulator."""


class InjectedBaseFault(BaseException):
    """BaseException-derived injected fault (like KeyboardInterrupt)."""


EXC = {"fault": InjectedFault, "base": InjectedBaseFault, "kbd": KeyboardInterrupt,
       "recursion": RecursionError, "memory": MemoryError}


class StepCapExceeded(BaseException):
    """The traced operation executed more eligible line events than the step cap allows (a run never hangs:
    the operation is cut off and its outcome is this exception, which the oracles then compare as any other)."""


class CrashTracer:
    def __init__(self, eligible, k=None, exc="fault", record=False, cap=None):
        """eligible(code) -> bool decides which frames' line events count.
        cap: raise StepCapExceeded at every cap-th eligible line event (None = unbounded)."""
        self.cap = cap
        self.eligible = eligible
        self.k = k
        self.exc = EXC[exc]
        self.count = 0
        self.fired = None
        self.record = [] if record else None
        self._cache = {}

    def _local(self, frame, event, arg):
        if event == "line":
            n = self.count
            self.count = n + 1
            if self.record is not None:
                self.record.append((frame.f_code.co_name, frame.f_lineno))
            if n == self.k and self.fired is None:
                self.fired = (frame.f_code.co_name, frame.f_lineno, frame.f_code.co_filename)
                raise self.exc("injected at line event %d" % n)
            if self.cap and n and n % self.cap == 0:
                raise StepCapExceeded("step cap: %d eligible line events" % n)
        return self._local

    def _global(self, frame, event, arg):
        if event != "call":
            return None
        code = frame.f_code
        ok = self._cache.get(code)
        if ok is None:
            ok = self._cache[code] = bool(self.eligible(code))
        return self._local if ok else None

    def __enter__(self):
        self._prev = sys.gettrace()
        sys.settrace(self._global)
        return self

    def __exit__(self, *a):
        sys.settrace(self._prev)
        return False
