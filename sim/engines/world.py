"""World engine: a scratch module tree the simulator fully owns.

* files are written with mtimes taken from a simulated clock that only the
  simulator advances (CPython validates a .pyc against (source mtime, size));
* "restart" = every module of the world purged from sys.modules + finder caches
  invalidated (the thorough tier validates this stub against real subprocesses);
* the bytecode-write seam (importlib._bootstrap_external._write_atomic) can be
  armed to fail like a full / read-only disk or to "crash" after writing a temp
  file but before the rename;
* the loader's get_code is bracketed so effects can be attributed to the compile
  phase or to the run phase without looking at hy internals;
* which path a load took is observed through hy's own HY_MESSAGE_WHEN_COMPILING.
"""
import contextlib
import errno
import importlib
import importlib.util
import io
import os
import shutil
import sys

import importlib._bootstrap_external as _be

_real_write_atomic = _be._write_atomic
_real_get_code = importlib.machinery.SourceFileLoader.get_code


class World:
    def __init__(self, tag):
        base = os.environ.get("VERIF_SCRATCH") or "/tmp"
        self.root = os.path.join(base, "world-%d-%s" % (os.getpid(), tag))
        shutil.rmtree(self.root, ignore_errors=True)
        os.makedirs(self.root)
        self.clock = 1_600_000_000
        self.start_clock = self.clock
        self.names = set()
        self.files = {}
        self.armed = None            # None | "enospc" | "eacces" | "crash_before_rename"
        self.fault_log = []
        self.phase = []              # stack of module names whose get_code is running
        self.phase_log = []
        sys.path.insert(0, self.root)
        os.environ["HY_MESSAGE_WHEN_COMPILING"] = "1"
        _be._write_atomic = self._write_atomic
        importlib.machinery.SourceFileLoader.get_code = self._get_code_wrapper()
        self.saved_dwb = sys.dont_write_bytecode

    # ---- seams
    def _write_atomic(self, path, data, mode=0o666):
        if self.armed and self._is_world_pyc(path):
            kind = self.armed
            self.fault_log.append((kind, os.path.basename(path)))
            if kind == "enospc":
                raise OSError(errno.ENOSPC, "No space left on device (simulated)", path)
            if kind == "eacces":
                raise PermissionError(errno.EACCES, "Permission denied (simulated)", path)
            if kind == "crash_before_rename":
                try:
                    os.makedirs(os.path.dirname(path), exist_ok=True)
                    with open(path + ".sim-tmp", "wb") as f:
                        f.write(bytes(data)[: max(1, len(data) // 2)])
                except OSError:
                    pass
                raise OSError(errno.EIO, "simulated crash between write and rename", path)
        return _real_write_atomic(path, data, mode)

    def _get_code_wrapper(self):
        world = self

        def get_code(loader, fullname):
            mine = fullname in world.names
            if mine:
                world.phase.append(fullname)
            try:
                return _real_get_code(loader, fullname)
            finally:
                if mine:
                    world.phase.pop()

        return get_code

    def in_compile_phase(self):
        return bool(self.phase)

    # ---- files
    def path(self, name, ext=".hy"):
        # a dotted name is a module inside a package: directories are created on demand
        p = os.path.join(self.root, *name.split(".")) + ext
        os.makedirs(os.path.dirname(p), exist_ok=True)
        return p

    def write(self, name, text, ext=".hy", advance=2):
        self.clock += advance
        p = self.path(name, ext)
        with open(p, "w", encoding="utf-8") as f:
            f.write(text)
        os.utime(p, (self.clock, self.clock))
        self.names.add(name)
        self.files[name] = p
        return p

    def touch(self, name, advance=3):
        self.clock += advance
        os.utime(self.files[name], (self.clock, self.clock))

    def _is_world_pyc(self, path):
        return any(path == importlib.util.cache_from_source(f) for f in self.files.values())

    def pyc(self, name):
        return importlib.util.cache_from_source(self.files[name])

    def pyc_exists(self, name):
        return os.path.exists(self.pyc(name))

    def delete_pyc(self, name):
        try:
            os.remove(self.pyc(name))
            return True
        except OSError:
            return False

    def truncate_pyc(self, name, n):
        p = self.pyc(name)
        if not os.path.exists(p):
            return False
        with open(p, "rb") as f:
            data = f.read()
        with open(p, "wb") as f:
            f.write(data[:n])
        return True

    # ---- process boundary
    def restart(self):
        tops = {x.split(".")[0] for x in self.names}
        for n in list(sys.modules):
            if n in self.names or n.split(".")[0] in tops:
                del sys.modules[n]
        importlib.invalidate_caches()
        for k in [k for k in sys.path_importer_cache if k == self.root or k.startswith(self.root + os.sep)]:
            sys.path_importer_cache.pop(k, None)

    def import_(self, name):
        """Returns (module or exception, [names compiled from source during this import])."""
        err = io.StringIO()
        out = io.StringIO()
        try:
            with contextlib.redirect_stderr(err), contextlib.redirect_stdout(out):
                mod = importlib.import_module(name)
            res = mod
        except BaseException as e:
            res = e
        compiled = []
        self.last_compiled_paths = []
        for line in err.getvalue().splitlines():
            if line.startswith("Compiling "):
                p = line[len("Compiling "):].strip()
                compiled.append(os.path.splitext(os.path.basename(p))[0])
                self.last_compiled_paths.append(p)
        return res, compiled, out.getvalue(), err.getvalue()

    def close(self):
        _be._write_atomic = _real_write_atomic
        importlib.machinery.SourceFileLoader.get_code = _real_get_code
        sys.dont_write_bytecode = self.saved_dwb
        try:
            sys.path.remove(self.root)
        except ValueError:
            pass
        self.restart()
        sys.path_importer_cache.pop(self.root, None)
        for f in self.files.values():
            for q in (importlib.util.cache_from_source(f), importlib.util.cache_from_source(f) + ".sim-tmp"):
                try:
                    os.remove(q)
                except OSError:
                    pass
        shutil.rmtree(self.root, ignore_errors=True)
        os.environ.pop("HY_MESSAGE_WHEN_COMPILING", None)
