"""Effect engine: the generated programs call back into the simulator at every
effect point; the simulator logs the call and, following the run's fault plan,
raises a chosen exception at the c-th dynamic effect."""


class FA(Exception):
    pass


class FB(FA):
    pass


class FC(Exception):
    pass


class FD(BaseException):
    pass


CLASSES = {"A": FA, "B": FB, "C": FC, "D": FD, "K": KeyboardInterrupt}
NAMES = {v: k for k, v in CLASSES.items()}


class Effects:
    def __init__(self, plan=None):
        """plan: {dynamic effect index (int): class key}"""
        self.plan = {int(k): v for k, v in (plan or {}).items()}
        self.count = 0
        self.log = []
        self.fired = []

    def reset(self, plan=None):
        self.__init__(plan)

    def hit(self, tag):
        c = self.count
        self.count += 1
        cls = self.plan.get(c)
        if cls is not None:
            self.log.append([tag, "raise " + cls])
            self.fired.append((c, tag, cls))
            raise CLASSES[cls]("effect %r (dynamic index %d)" % (tag, c))
        self.log.append([tag, "call"])

    def E(self, k):
        self.hit(k)
        return k
