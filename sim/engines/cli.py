"""CLI engine: hy.cmdline.hy_main behind a real process boundary.

The worker has hy.cmdline imported; every invocation forks, wires pipes to fds
0/1/2, changes into the world directory, installs a fresh __main__, sets
sys.argv and calls hy_main(); SystemExit / uncaught exceptions are mapped to an
exit status exactly as the interpreter does, then the child _exits.  The parent
feeds stdin and collects stdout, stderr and the status.  Everything the program
can see (argv, stdin, cwd, files, bytecode cache) is owned by the simulator.
"""
import os
import select
import signal
import sys
import time
import traceback
import types


def run_hy(argv, stdin_text="", cwd=None, timeout=60.0, entry="script"):
    """entry: "script" = what the installed `hy` console script does (sys.exit(hy_main()));
    "module" = `python -m hy` (hy/__main__.py run as __main__)."""
    rin, win = os.pipe()
    rout, wout = os.pipe()
    rerr, werr = os.pipe()
    sys.stdout.flush()
    sys.stderr.flush()
    pid = os.fork()
    if pid == 0:
        status = 70
        try:
            os.close(win), os.close(rout), os.close(rerr)
            os.dup2(rin, 0), os.dup2(wout, 1), os.dup2(werr, 2)
            for fd in (rin, wout, werr):
                if fd > 2:
                    os.close(fd)
            sys.stdin = open(0, "r", closefd=False)
            sys.stdout = open(1, "w", closefd=False)
            sys.stderr = open(2, "w", closefd=False)
            sys.__stdout__, sys.__stderr__, sys.__stdin__ = sys.stdout, sys.stderr, sys.stdin
            if cwd:
                os.chdir(cwd)
            main = types.ModuleType("__main__")
            sys.modules["__main__"] = main
            sys.argv = list(argv)
            import hy.cmdline
            try:
                if entry == "module":
                    import runpy
                    runpy.run_module("hy.__main__", run_name="__main__", alter_sys=False)
                    rv = None
                else:
                    rv = hy.cmdline.hy_main()
                # falling off the end: the console script passes the return value to sys.exit
                if rv is None:
                    status = 0
                elif isinstance(rv, int):
                    status = rv & 0xFF
                else:
                    print(rv, file=sys.stderr)
                    status = 1
            except SystemExit as e:
                c = e.code
                if c is None:
                    status = 0
                elif isinstance(c, int):
                    status = c & 0xFF
                else:
                    print(c, file=sys.stderr)
                    status = 1
            except BaseException:
                # like the interpreter: the uncaught exception goes to sys.excepthook (which the program may have replaced)
                t, v, tb = sys.exc_info()
                try:
                    sys.excepthook(t, v, tb)
                except BaseException:
                    print("Error in sys.excepthook:", file=sys.stderr)
                    traceback.print_exc()
                    print("\nOriginal exception was:", file=sys.stderr)
                    traceback.print_exception(t, v, tb)
                status = 1
            try:
                sys.stdout.flush()
                sys.stderr.flush()
            except BaseException:
                pass
        finally:
            os._exit(status)
    os.close(rin), os.close(wout), os.close(werr)
    data = stdin_text.encode()
    out, err = [], []
    fds = {rout: out, rerr: err}
    deadline = time.monotonic() + timeout
    wfd = win
    try:
        while fds:
            rl = list(fds)
            wl = [wfd] if wfd is not None else []
            r, w, _ = select.select(rl, wl, [], max(0.0, deadline - time.monotonic()))
            if not r and not w:
                os.kill(pid, signal.SIGKILL)
                os.waitpid(pid, 0)
                return None, b"".join(out).decode(errors="replace"), "TIMEOUT"
            if w:
                if data:
                    try:
                        n = os.write(wfd, data[:65536])
                        data = data[n:]
                    except BrokenPipeError:
                        data = b""
                if not data:
                    os.close(wfd)
                    wfd = None
            for fd in r:
                b = os.read(fd, 65536)
                if b:
                    fds[fd].append(b)
                else:
                    os.close(fd)
                    del fds[fd]
    finally:
        if wfd is not None:
            try:
                os.close(wfd)
            except OSError:
                pass
    _, st = os.waitpid(pid, 0)
    status = os.waitstatus_to_exitcode(st)
    return status, b"".join(out).decode(errors="replace"), b"".join(err).decode(errors="replace")
