"""REPL engine: the real hy.REPL driven through REPL.run() ->
code.InteractiveConsole.interact() with a scripted terminal.

`raw_input` is replaced on the instance.  Each time the REPL asks for a line the
engine calls driver(prompt, stdout_chunk, stderr_chunk, repl) with everything
written since the previous request; the driver returns the next line, INTERRUPT
(the terminal delivers KeyboardInterrupt instead of a line) or None (EOF).
"""
import contextlib
import io
import sys

INTERRUPT = object()


def run_session(hy, module_name, driver, repl_kwargs=None):
    out, err = io.StringIO(), io.StringIO()
    pos = {"out": 0, "err": 0}
    with contextlib.redirect_stdout(out), contextlib.redirect_stderr(err):
        repl = hy.REPL(locals={"__name__": module_name}, **(repl_kwargs or {}))
    pos["out"], pos["err"] = len(out.getvalue()), len(err.getvalue())
    first = [True]

    def chunk():
        o, e = out.getvalue(), err.getvalue()
        c = (o[pos["out"]:], e[pos["err"]:])
        pos["out"], pos["err"] = len(o), len(e)
        return c

    def sim_input(prompt=""):
        o, e = chunk()
        if first[0]:
            first[0] = False
            e = ""  # banner
        # the driver runs with the real stdout/stderr so its own evaluation does not pollute the capture
        with contextlib.redirect_stdout(sys.__stdout__), contextlib.redirect_stderr(sys.__stderr__):
            line = driver(prompt, o, e, repl)
        if line is None:
            raise EOFError
        if line is INTERRUPT:
            raise KeyboardInterrupt
        return line

    repl.raw_input = sim_input
    exit_ = None
    saved = getattr(sys, "last_exc", None)
    try:
        with contextlib.redirect_stdout(out), contextlib.redirect_stderr(err):
            try:
                repl.run()
            except SystemExit as e:
                exit_ = ["SystemExit", repr(e.code)]
    finally:
        sys.modules.pop(module_name, None)
        try:
            sys.last_exc = saved
        except Exception:
            pass
    o, e = chunk()
    return {"exit": exit_, "tail_stdout": o, "tail_stderr": e, "repl": repl}
