"""C19 -- truncated input is reported as premature end of input.

The fault is the input stream ending early.  For every generated well-formed
text the stream is cut at EVERY character offset (fault enumeration) and the
prefix is (a) read to the end through hy.read_many on a counting stream and
(b) handed to the REPL's command compiler, which must ask for more input
exactly when the reader reports PrematureEndOfInput; a sample of cuts also goes
through the real REPL.runsource.  The generator renders a token tree and records
for every offset whether the cut lies inside an unclosed construct or right
after a prefix ("open": PrematureEndOfInput and nothing else), between
top-level forms ("top": no error), or strictly inside a non-string atom whose
prefixes are not all atoms themselves ("skip": not judged).
"""
import io
import os
import sys

PROPERTY = "C19"
LEVEL = "fault_enumeration"
ISOLATE = False
RULE = ("one run = one generated multi-line well-formed text over (), [], {}, #{}, #(), strings with escapes/newlines, "
        "bracket strings with delimiters, f-strings (fields, conversions, =, nested format specs, {{ }}), prefixes ' ` ~ ~@ "
        "#_ #* #** #^ and comments; EOF injected at every offset 0..len. Non-trivial cut = offset classified open or top "
        "(not skip); distinct = distinct (innermost construct kind at the cut, expectation, text digest) -- counted per "
        "text as the set of construct kinds cut, hashed with the text")
REAL = ["hy.read_many / HyReader / Reader (character streaming, every handler)", "hy.REPL command compiler "
        "(HyCommandCompiler / HyCompile) and REPL.runsource for a sample of cuts"]
STUB = ["the input stream (io.StringIO subclass that ends at the chosen offset and counts reads)",
        "the terminal (REPL driven by direct runsource calls, output captured)"]
ASSUMPTIONS = ["cuts strictly inside a non-string atom are judged only if every non-empty prefix of the atom is an atom",
               "texts contain no reader-macro definitions and no shebang"]

_S = {}


class SimStream(io.StringIO):
    """Input stream that ends at a chosen offset and counts read calls."""

    def __init__(self, text, cut):
        super().__init__(text[:cut])
        self.reads = 0

    def read(self, *a):
        self.reads += 1
        return super().read(*a)


def setup_worker():
    if _S:
        return
    import hy
    from hy.reader.exceptions import PrematureEndOfInput, LexException
    import hy.repl
    _S["hy"] = hy
    _S["PEOI"] = PrematureEndOfInput
    _S["Lex"] = LexException
    _S["n"] = 0
    list(hy.read_many('(foo f"a{x !r:>{w}}" #[[x]] \'b)'))


def plan(tier):
    if tier == "thorough":
        return {"runs": 20000, "budget_s": 1500, "chunk": 40, "recheck": 12, "shrink_s": 120}
    return {"runs": 700, "budget_s": 200, "chunk": 8, "recheck": 6, "shrink_s": 45}


# ------------------------------------------------------------------ token trees

CLOSED_ATOMS = ["foo", "bar", "x", "a-b", "setv", "print", "é", "1", "42", "123", "-7", ":k", ":key-word", "1.5",
                "None", "True", "+", "*", "->", "x1", "_y", "&rest", "..."]
OPEN_ATOMS = ["a.b", "foo.bar.baz", ".meth", "1.5e3", "2+3j", "0x1F", "1e-3", "obj.attr", "1_000"]
STR_BODIES = ["", "a", "hello world", "two\nlines", "esc\\n\\t", "q\\\"q", "back\\\\", "uni\\u00e9", "hex\\x41",
              "semi;colon", "paren)(", "brace"]
F_LITERALS = ["", "a", "x y", "{{", "}}", "a{{b}}c", "nl\n", "tab\\t"]
DELIMS = ["", "x", "==", "f-x", "doc"]
_OPEN_BDELIMS = []


def gen_form(rng, depth, in_f=False, optional=False):
    r = rng.random()
    if depth <= 0 or r < 0.3:
        if rng.random() < 0.2:
            return ["atom", rng.choice(OPEN_ATOMS), False]
        return ["atom", rng.choice(CLOSED_ATOMS), True]
    if r < 0.52:
        kind = rng.choice(["(", "(", "(", "[", "[", "{", "#{", "#("])
        n = rng.choice([0, 1, 2, 2, 3, 4])
        if kind == "{":
            n += n % 2
        items = [gen_form(rng, depth - 1, in_f, optional=(kind != "{")) for _ in range(n)]
        if kind == "(" and items and rng.random() < 0.7:
            items[0] = ["atom", rng.choice(["foo", "print", "setv", "+", "f"]), True]
        return ["seq", kind, items, [rng.choice([" ", " ", "\n", "  ", "\n  "]) for _ in range(n + 1)],
                rng.random() < 0.15]
    if r < 0.64:
        pre = rng.choice(["", "", "b", "r"])
        body = rng.choice(STR_BODIES)
        if pre == "b":
            body = rng.choice(["", "ab", "esc\\n", "q\\\"q"])
        if in_f:
            body = body.replace("\n", " ")
        return ["str", pre, body]
    if r < 0.72:
        delim = rng.choice(DELIMS)
        body = rng.choice(["", "text", "with ] bracket", "multi\nline", "quote\"s", "]x", "a]b]"])
        if delim.startswith("f"):
            delim = "g" + delim
        closer = "]" + delim + "]"
        if (body + closer).find(closer) != len(body):
            body = body.replace("]", ")")
        return ["bstr", delim, body]
    if r < 0.86:
        return ["fstr", rng.choice(["f", "f", "rf"]) if not in_f else "f", gen_fparts(rng, depth - 1), None]
    if r < 0.9:
        # a bracket f-string is first read verbatim up to its closer, so nothing inside it (at any depth) may be
        # a bracket f-string with the same delimiter
        bd = rng.choice(["f", "f-x"])
        if bd in _OPEN_BDELIMS:
            bd = "f-x" if bd == "f" else "f"
        if bd in _OPEN_BDELIMS:
            return ["fstr", "f", gen_fparts(rng, depth - 1), None]
        _OPEN_BDELIMS.append(bd)
        try:
            return ["fstr", "bracket", gen_fparts(rng, depth - 1), bd]
        finally:
            _OPEN_BDELIMS.pop()
    p = rng.choice(["'", "'", "`", "~", "~@", "#*", "#**", "#^"] + (["#_", "#_"] if optional else []))
    if p == "#^":
        return ["prefix", p, [gen_form(rng, 0), gen_form(rng, depth - 1, in_f)], rng.choice([" ", "  "])]
    return ["prefix", p, [gen_form(rng, depth - 1, in_f)],
            " " if p in ("#*", "#**") else rng.choice(["", "", " "])]


def gen_fparts(rng, depth):
    parts = []
    for _ in range(rng.choice([0, 1, 2, 3, 4])):
        if rng.random() < 0.5:
            parts.append(["lit", rng.choice(F_LITERALS)])
        else:
            fld = {"form": gen_form(rng, min(depth, 1), in_f=True), "sp1": rng.choice(["", "", " "]),
                   "sp2": rng.choice(["", "", " "]), "dbg": rng.random() < 0.15,
                   "conv": rng.choice([None, None, "r", "s", "a"]), "spec": None}
            if rng.random() < 0.3:
                fld["spec"] = [["lit", rng.choice([">10", ".2f", "^", ""])]]
                if rng.random() < 0.4:
                    fld["spec"].append(["field", {"form": ["atom", rng.choice(["w", "prec"]), True], "sp1": "", "sp2": "",
                                                   "dbg": False, "conv": None, "spec": None}])
            parts.append(["field", fld])
    return parts


def generate(rng, tier):
    n = rng.choice([1, 2, 3, 3, 4, 5])
    forms = []
    rmacro = rng.random() < 0.12
    for _ in range(n):
        f = gen_form(rng, rng.choice([1, 2, 3, 3, 4]), optional=True)
        if (rmacro or rng.random() < 0.6) and not (f[0] == "prefix" and f[1] == "#_"):
            f = ["prefix", "'", [f], ""]  # quoted data always compiles, so the REPL oracle applies to the text
        forms.append(f)
        if rng.random() < 0.2:
            forms.append(["comment", rng.choice(["; note", ";; (unclosed", "; \"quote", ";"])])
    if rmacro:
        # the text first DEFINES a reader macro and later forms USE it: only right when every top-level form is
        # read after the previous one was evaluated (the REPL clause uses a fresh REPL per cut for such texts)
        rmacro = rng.choice(["const", "width", "next"])
        if rmacro == "next":
            # a reader macro that reads its argument with the reader's own parse-one-form
            forms.insert(0, ["raw", "(defreader zn (.parse-one-form &reader))"])
        elif rmacro == "const":
            forms.insert(0, ["seq", "(", [["atom", "defreader", True], ["atom", "zq", True], ["str", "", "zq-value"]], [" ", " ", " ", " "], False])
        else:
            # a reader macro that consumes a fixed-width token through the reader's own getc / getn
            forms.insert(0, ["raw", "(defreader zw (.getc &reader) (.getn &reader 4))"])
        for _ in range(rng.randint(1, 3)):
            if rmacro == "const":
                use = ["atom", "#zq", False]
            elif rmacro == "width":
                use = ["rmtok", "".join(rng.choice("abcdwxyz") for _ in range(4))]
            else:
                # (arguments that evaluate without error: the complete text must run cleanly at the REPL)
                use = ["rmnext", rng.choice([["seq", "[", [["atom", "1", True], ["atom", "2", True]], [" ", " ", " "], False],
                                             ["str", "", "arg"], ["seq", "(", [["atom", "+", True], ["atom", "1", True], ["atom", "42", True]], [" ", " ", "\n", " "], False],
                                             ["seq", "(", [["atom", "len", True], ["str", "", "a b"]], [" ", " ", " "], False],
                                             ["atom", "42", True]])]
            kind = rng.choice(["bare", "quoted-seq", "quoted-seq", "call"])
            if kind == "quoted-seq":
                use = ["prefix", "'", [["seq", rng.choice(["(", "["]), [["atom", "x", True], use, ["atom", "1", True]], [" ", " ", "\n", " "], False]], ""]
            elif kind == "call":
                use = ["seq", "(", [["atom", "print", True], use], [" ", " ", " "], False]
            forms.insert(rng.randint(1, len(forms)), use)
    seps = [rng.choice(["\n", "\n", " ", "\n\n", "  \n"]) for _ in range(len(forms) + 1)]
    seps[0] = rng.choice(["", "", "\n", " "])
    return {"forms": forms, "seps": seps, "repl_sample": rng.randrange(1 << 30), "rmacro": rmacro,
            "eol": rng.choice(["\n", "\n", "\n", "\r\n", "\r\n"]),
            "ws": rng.choice([None, None, None, "\t", "\x0c", "\x0b", "\r"]), "ws_seed": rng.randrange(1 << 30)}


# ------------------------------------------------------------------ renderer with per-offset classification


class Render:
    def __init__(self):
        self.out = []
        self.sepmask = []   # True for structural whitespace between items / top-level forms
        self.cls = ["top"]
        self.ctx = ["top"]
        self.stack = []  # ["seq", label] | ["prefix", label, need]

    def _classify(self, mode):
        if mode == "skip":
            return "skip"
        if any(f[0] == "seq" for f in self.stack):
            return "open"
        if mode == "struct":
            return "open" if self.stack else "top"
        # mode == "form": a complete form ends here -- would everything above be satisfied?
        for f in reversed(self.stack):
            if f[2] > 1:
                return "open"
        return "top"

    def emit(self, s, mode, label=None, sep=False):
        for ch in s:
            self.out.append(ch)
            self.sepmask.append(sep)
            self.cls.append(self._classify(mode))
            self.ctx.append(label or (self.stack[-1][1] if self.stack else "top"))

    def complete_form(self):
        while self.stack and self.stack[-1][0] == "prefix":
            f = self.stack[-1]
            if f[2] > 1:
                f[2] -= 1
                return
            self.stack.pop()

    def form(self, t):
        k = t[0]
        if k == "atom":
            s, closed = t[1], t[2]
            if len(s) > 1:
                self.emit(s[:-1], "form" if closed else "skip", "atom")
            self.emit(s[-1], "form", "atom")
            self.complete_form()
        elif k == "seq":
            _, opener, items, seps, trailing_comment = t
            closer = {"(": ")", "[": "]", "{": "}", "#{": "}", "#(": ")"}[opener]
            self.stack.append(["seq", "seq" + opener])
            self.emit(opener, "struct")
            for i, it in enumerate(items):
                if i:
                    self.emit(seps[i] or " ", "struct", sep=True)
                self.form(it)
            if trailing_comment:
                self.emit(" ; c\n", "struct")
            self.stack.pop()
            self.emit(closer, "form", "seq" + opener)
            self.complete_form()
        elif k == "raw":
            self.stack.append(["seq", "raw"])
            self.emit(t[1][:-1], "struct")
            self.stack.pop()
            self.emit(t[1][-1], "form", "raw")
            self.complete_form()
        elif k == "rmnext":
            # `#zn FORM`: the macro reads the next form itself, so the tag behaves like a prefix that needs one form
            self.stack.append(["prefix", "rmnext", 1])
            self.emit("#z", "skip", "rmnext")
            self.emit("n", "struct")
            self.emit(" ", "struct")
            self.form(t[1])
        elif k == "rmtok":
            # `#zw abcd`: after the tag the macro itself keeps reading, so every cut up to the last character of the
            # token is inside an open construct
            self.emit("#z", "skip", "rmtok")
            self.stack.append(["seq", "rmtok"])
            self.emit("w " + t[1][:-1], "struct")
            self.stack.pop()
            self.emit(t[1][-1], "form", "rmtok")
            self.complete_form()
        elif k == "str":
            _, pre, body = t
            if pre:
                self.emit(pre, "form", "strprefix")
            self.stack.append(["seq", "str"])
            self.emit('"' + body, "struct")
            self.stack.pop()
            self.emit('"', "form", "str")
            self.complete_form()
        elif k == "bstr":
            _, delim, body = t
            self.stack.append(["seq", "bstr"])
            self.emit("#[" + delim + "[" + body + "]" + delim, "struct")
            self.stack.pop()
            self.emit("]", "form", "bstr")
            self.complete_form()
        elif k == "fstr":
            _, pre, parts, bdelim = t
            if pre == "bracket":
                self.stack.append(["seq", "fbstr"])
                self.emit("#[" + bdelim + "[", "struct")
                self.fparts(parts)
                self.emit("]" + bdelim, "struct")
                self.stack.pop()
                self.emit("]", "form", "fbstr")
            else:
                self.emit(pre, "form", "strprefix")
                self.stack.append(["seq", "fstr"])
                self.emit('"', "struct")
                self.fparts(parts)
                self.stack.pop()
                self.emit('"', "form", "fstr")
            self.complete_form()
        elif k == "prefix":
            _, p, forms, sp = t
            self.stack.append(["prefix", "prefix" + p, len(forms)])
            self.emit(p, "struct")
            for i, f in enumerate(forms):
                gap = sp if i == 0 else " "
                if not gap and p.startswith("#") and first_char(f) not in '([{"':
                    gap = " "
                self.emit(gap, "struct")
                self.form(f)
        elif k == "comment":
            self.emit(t[1], "struct", "comment")
        else:
            raise ValueError(k)

    def fparts(self, parts):
        for p in parts:
            if p[0] == "lit":
                s = p[1]
                # label the second brace of an escaped pair specially
                i = 0
                while i < len(s):
                    if s[i:i + 2] in ("{{", "}}"):
                        self.emit(s[i], "struct", "fstr-escaped-brace-1:" + s[i])
                        self.emit(s[i + 1], "struct")
                        i += 2
                    else:
                        self.emit(s[i], "struct")
                        i += 1
            else:
                f = p[1]
                self.stack.append(["seq", "ffield"])
                sp1 = f["sp1"]
                if not sp1 and first_char(f["form"]) == "{":
                    sp1 = " "  # `{{` would be an escaped brace
                self.emit("{" + sp1, "struct", "ffield-before-form")
                self.form(f["form"])
                # relabel: what was just emitted ends the field's form
                self.ctx[-1] = "ffield-after-form"
                sp2 = f["sp2"]
                if not sp2 and (f["dbg"] or f["conv"] or f["spec"] is not None) and self.out[-1] not in ')]}"':
                    sp2 = " "  # `x!r`, `x:>3`, `x=` would read as one identifier
                if sp2:
                    self.emit(sp2, "struct", "ffield-after-form")
                if f["dbg"]:
                    self.emit("=", "struct", "ffield-after-debug")
                if f["conv"]:
                    self.emit("!", "struct", "ffield-after-bang")
                    self.emit(f["conv"], "struct", "ffield-after-conversion")
                if f["spec"] is not None:
                    self.stack.append(["seq", "fspec"])
                    self.emit(":", "struct")
                    self.fparts(f["spec"])
                    self.stack.pop()
                self.stack.pop()
                self.emit("}", "struct")


def first_char(t):
    r = Render()
    r.form(t)
    return r.out[0]


def render(desc):
    r = Render()
    forms, seps = desc["forms"], desc["seps"]
    r.emit(seps[0], "struct", sep=True)
    for i, f in enumerate(forms):
        r.form(f)
        sep = seps[i + 1]
        if f[0] == "comment" and "\n" not in sep:
            sep = "\n"
        elif i + 1 < len(forms) and not sep:
            sep = " "
        r.emit(sep, "struct", sep=True)
    assert not r.stack, r.stack
    out, cls, ctx = r.out, r.cls, r.ctx
    if desc.get("ws"):
        # swarm over the other ASCII whitespace characters (tab, form feed, vertical tab, lone CR): they separate
        # forms like a space does and, unlike "\n", are no line ends for the reader
        import random as _random
        wr = _random.Random(desc.get("ws_seed", 0))
        out = [desc["ws"] if (ch == " " and r.sepmask[p] and wr.random() < 0.6) else ch for p, ch in enumerate(out)]
    eol = desc.get("eol", "\n")
    if eol != "\n":
        # swarm over line endings: every "\n" becomes eol; a cut between "\r" and "\n" is judged like the
        # position just before the line break
        o2, c2, x2 = [], [cls[0]], [ctx[0]]
        for p, ch in enumerate(out):
            if ch == "\n":
                for e in eol[:-1]:
                    o2.append(e)
                    c2.append(cls[p])
                    x2.append(ctx[p])
                o2.append(eol[-1])
            else:
                o2.append(ch)
            c2.append(cls[p + 1])
            x2.append(ctx[p + 1])
        out, cls, ctx = o2, c2, x2
    return "".join(out), cls, ctx


# ------------------------------------------------------------------ execution


def _read_prefix(text, k, rmacro=False):
    hy = _S["hy"]
    st = SimStream(text, k)
    kw = {}
    if rmacro:
        # reading without evaluating: the macro the text defines is installed in the reader beforehand
        rd = hy.HyReader()
        rd.reader_macros["zq"] = lambda reader, key: "zq-value"
        rd.reader_macros["zw"] = lambda reader, key: (reader.getc(), reader.getn(4))[1]
        rd.reader_macros["zn"] = lambda reader, key: reader.parse_one_form()
        kw["reader"] = rd
    try:
        n = len(list(hy.read_many(st, **kw)))
        out = "ok"
    except _S["PEOI"]:
        out = "peoi"
    except BaseException as e:
        out = "other:" + type(e).__name__
    return out, st.reads


def execute(desc):
    setup_worker()
    import contextlib
    import random
    from sim import kernel
    hy = _S["hy"]
    text, cls, ctx = render(desc)
    viols = []
    events = [["text", kernel.digest(text), len(text)]]
    faults = {"eof_in_open_construct": 0, "eof_between_forms": 0, "eof_inside_unjudged_atom": 0}
    probes = {"cuts": 0, "repl_compile_checks": 0, "repl_runsource_checks": 0, "max_reads_per_char_x100": 0}
    kinds = set()
    # the untruncated text must read cleanly -- otherwise the generator is wrong, not hy
    rmacro = bool(desc.get("rmacro"))
    full, _ = _read_prefix(text, len(text), rmacro)
    if full != "ok":
        raise RuntimeError("harness: generated text is not well-formed: %r -> %s" % (text, full))
    _S["n"] += 1
    sink = io.StringIO()
    with contextlib.redirect_stdout(sink), contextlib.redirect_stderr(sink):
        repl = hy.REPL(locals={"__name__": "c19_console_%d" % _S["n"]})
    # The REPL oracle needs a program whose complete forms compile: otherwise an early compile error ends the
    # input before the REPL ever reaches the truncated tail (that is not what this property is about).
    import types
    from hy.compiler import hy_compile
    try:
        with contextlib.redirect_stdout(sink), contextlib.redirect_stderr(sink):
            hy_compile(hy.read_many(text), types.ModuleType("c19_scratch"))
        compiles = True
    except Exception:
        compiles = False
    if rmacro and not compiles:
        raise RuntimeError("harness: reader-macro text does not compile: %r" % (text,))
    probes["texts_compilable" if compiles else "texts_not_compilable_repl_skipped"] = 1
    rs = random.Random(desc.get("repl_sample", 0))
    runsource_cuts = set(rs.sample(range(len(text) + 1), min(6, len(text) + 1)))
    if rmacro:
        # always judge the complete text and the cuts just after each use
        runsource_cuts.add(len(text))
        runsource_cuts.update(i + 4 for i in range(len(text)) if text.startswith("#zq", i) and i + 4 <= len(text))
        runsource_cuts.update(i + d for i in range(len(text)) if text.startswith("#zw ", i) for d in (4, 6, 8) if i + d <= len(text))
        runsource_cuts.update(i + d for i in range(len(text)) if text.startswith("#zn ", i) for d in (3, 4, 5, 7) if i + d <= len(text))
    outs = []
    for k in range(len(text) + 1):
        c = cls[k]
        probes["cuts"] += 1
        if c == "skip":
            faults["eof_inside_unjudged_atom"] += 1
            outs.append("-")
            continue
        got, reads = _read_prefix(text, k, rmacro)
        outs.append(got[0] if got in ("ok", "peoi") else "X")
        if reads > 3 * k + 20:
            viols.append({"clause": "termination", "sig": ctx[k], "detail": {"cut": k, "reads": reads}})
        probes["max_reads_per_char_x100"] = max(probes["max_reads_per_char_x100"], int(100 * reads / (k + 1)))
        kinds.add((ctx[k], c))
        if c == "open":
            faults["eof_in_open_construct"] += 1
            if got != "peoi":
                viols.append({"clause": "open_cut_not_premature_end", "sig": ctx[k] + "/" + got,
                              "detail": {"cut": k, "prefix_tail": text[max(0, k - 40):k], "got": got, "construct": ctx[k]}})
        else:
            faults["eof_between_forms"] += 1
            if got != "ok":
                viols.append({"clause": "top_cut_error", "sig": ctx[k] + "/" + got,
                              "detail": {"cut": k, "prefix_tail": text[max(0, k - 40):k], "got": got}})
        if not compiles:
            continue
        # REPL: asks for more exactly when the text is incomplete
        with contextlib.redirect_stdout(sink), contextlib.redirect_stderr(sink):
            try:
                if k in runsource_cuts:
                    r_ = repl
                    if rmacro:
                        # a REPL that has not seen the definition yet
                        _S["n"] += 1
                        r_ = hy.REPL(locals={"__name__": "c19_console_%d" % _S["n"]})
                        sys.modules.pop("c19_console_%d" % _S["n"], None)
                        probes["fresh_repl_cuts"] = probes.get("fresh_repl_cuts", 0) + 1
                    more = bool(r_.runsource(text[:k]))
                    probes["repl_runsource_checks"] += 1
                    if rmacro and not more and c != "open" and k == len(text) and r_.locals.get(hy.mangle("*e")) is not None:
                        # the complete text must evaluate without an error
                        rgot_err = type(r_.locals.get(hy.mangle("*e"))).__name__
                        viols.append({"clause": "repl_continuation", "sig": "complete_text_rejected",
                                      "detail": {"cut": k, "error": rgot_err, "text_tail": text[-80:]}})
                else:
                    try:
                        more = repl.compile(text[:k], "<stdin>", "exec") is None
                    except (SyntaxError, OverflowError, ValueError):
                        more = False
                    probes["repl_compile_checks"] += 1
                rgot = "more" if more else "done"
            except SystemExit:
                rgot = "exit"
            except BaseException as e:
                rgot = "raise:" + type(e).__name__
        want = "more" if c == "open" else "done"
        if rgot != want:
            viols.append({"clause": "repl_continuation", "sig": ctx[k] + "/" + rgot,
                          "detail": {"cut": k, "prefix_tail": text[max(0, k - 40):k], "repl": rgot, "expected": want,
                                     "reader": got}})
    sys.modules.pop("c19_console_%d" % _S["n"], None)
    events.append(["outcomes", "".join(outs)])
    # one violation per (clause, sig)
    uniq = {}
    for v in viols:
        uniq.setdefault((v["clause"], v["sig"]), v)
    sigs = [kernel.digest([sorted(kinds), kernel.digest(text)])] if kinds else []
    return {"events": events, "violations": list(uniq.values())[:12], "faults": faults, "probes": probes, "sigs": sigs,
            "steps": probes["cuts"]}


def extra_evidence(results):
    return {"exhaustive_per_text": True,
            "explanation": "every offset 0..len(text) of every generated text is cut (fault space per workload enumerated); "
                           "texts are sampled"}


# ------------------------------------------------------------------ shrinking


def _simpler(t):
    k = t[0]
    if k == "seq":
        items = t[2]
        for i in range(len(items)):
            if t[1] == "{" and len(items) % 2 == 0:
                if i % 2 == 0:
                    yield ["seq", t[1], items[:i] + items[i + 2:], t[3], False]
                continue
            yield ["seq", t[1], items[:i] + items[i + 1:], t[3], False]
        for i, it in enumerate(items):
            yield it
            for s in _simpler(it):
                yield ["seq", t[1], items[:i] + [s] + items[i + 1:], t[3], t[4]]
    elif k == "prefix":
        forms = t[2]
        yield forms[-1]
        for i, f in enumerate(forms):
            for s in _simpler(f):
                yield ["prefix", t[1], forms[:i] + [s] + forms[i + 1:], t[3]]
    elif k == "fstr":
        parts = t[2]
        for i in range(len(parts)):
            yield ["fstr", t[1], parts[:i] + parts[i + 1:], t[3]]
        for i, p in enumerate(parts):
            if p[0] == "field":
                f = p[1]
                for key, val in (("spec", None), ("conv", None), ("dbg", False), ("sp1", ""), ("sp2", "")):
                    if f[key] != val:
                        yield ["fstr", t[1], parts[:i] + [["field", dict(f, **{key: val})]] + parts[i + 1:], t[3]]
                for s in _simpler(f["form"]):
                    yield ["fstr", t[1], parts[:i] + [["field", dict(f, form=s)]] + parts[i + 1:], t[3]]
            elif len(p[1]) > 2:
                yield ["fstr", t[1], parts[:i] + [["lit", p[1][:2]]] + parts[i + 1:], t[3]]
    elif k == "str" and (t[1] or t[2]):
        yield ["str", "", ""]
    elif k == "bstr" and (t[1] or t[2]):
        yield ["bstr", "", ""]
    elif k == "atom" and t[1] != "x":
        yield ["atom", "x", True]


def shrink(desc):
    forms, seps = desc["forms"], desc["seps"]
    for i in range(len(forms)):
        if len(forms) > 1:
            yield dict(desc, forms=forms[:i] + forms[i + 1:], seps=seps[:i] + seps[i + 1:])
    for i, f in enumerate(forms):
        for s in _simpler(f):
            yield dict(desc, forms=forms[:i] + [s] + forms[i + 1:])
    if desc.get("eol", "\n") != "\n":
        yield dict(desc, eol="\n")
    if desc.get("ws"):
        yield dict(desc, ws=None)
    if any(s != "\n" for s in seps[1:]) or seps[0]:
        yield dict(desc, seps=[""] + ["\n"] * (len(seps) - 1))
