"""C29 -- hy.as-model promotes values to models; failures leave it working.

A run is a history over a small pool of long-lived Python objects plus fresh
ones: promote a pool object, promote a sub-object of it, promote a fresh value,
heal a pool object in place (cut its cycles / replace unrepresentable leaves) and
promote it again.  Faults: self-referential containers, unrepresentable leaves at
chosen depths, RecursionError from very deep nesting, exceptions injected at the
k-th line event inside model constructors.  Follow-ups are biased to land right
after a failure (same object, sub-object that was in flight, fresh containers of
the same shape so addresses get reused).

Oracle per op (nothing is relaxed after a failure): independent reference
promoter node by node; hy.eval round trip; idempotence; HyWrapperError exactly
for cyclic / unrepresentable inputs.
"""
import sys
import types

from sim.engines.crashpoints import CrashTracer, InjectedFault, InjectedBaseFault

PROPERTY = "C29"
LEVEL = "exploration"
ISOLATE = False
RULE = ("one run = a history of 4-14 ops (promote pool object / sub-object / fresh value, heal in place) over 1-3 long-lived "
        "objects; faults = cyclic containers, unrepresentable leaves, RecursionError, injected exceptions inside model "
        "constructors. Non-trivial = at least one promotion failed and at least one later promotion was checked; distinct = "
        "distinct sequences of (op kind, value shape, outcome class)")
REAL = ["hy.as_model, every wrapper in hy/models.py, hy.eval (compiler) for the round trip"]
STUB = ["fault source for constructor failures (sys.settrace raising at the k-th line event inside hy/models.py "
        "constructors); everything else is real"]
ASSUMPTIONS = ["NaN excluded (not equal to itself)", "eval round trip only for values built from plain Python types "
               "and keywords (an existing sequence model does not compare equal to the list it evaluates to)"]

_S = {}


def setup_worker():
    if _S:
        return
    import hy
    import hy.models
    from hy.errors import HyWrapperError
    hy.eval(hy.models.Integer(1), {}, module=types.ModuleType("c29warm"))
    _S["hy"] = hy
    _S["M"] = hy.models
    _S["HyWrapperError"] = HyWrapperError
    _S["mod"] = types.ModuleType("c29mod")
    mfile = hy.models.__file__
    skip = {"as_model", "lambda_to_return", "_dict_wrapper", "<genexpr>", "<lambda>", "replace", "replace_hy_obj"}
    _S["eligible"] = lambda code: code.co_filename == mfile and code.co_name not in skip

    class SubList(list):
        pass

    _S["SubList"] = SubList
    sys.setrecursionlimit(1000)


def plan(tier):
    if tier == "thorough":
        return {"runs": 120000, "budget_s": 1500, "chunk": 200, "recheck": 16, "shrink_s": 120}
    return {"runs": 5000, "budget_s": 120, "chunk": 60, "recheck": 8, "shrink_s": 45}


# ------------------------------------------------------------------ specs

STRS = ["", "a", "héllo", "with \"quotes\"", "line\nbreak", "]]", "{x}"]
MUT = ("list", "dict")
CONT = ("list", "tuple", "dict", "set", "mlist", "mexpr", "mtuple", "mdict", "mset")


def gen_leaf(rng, plain=False):
    r = rng.random()
    if r < 0.25:
        return {"t": "int", "v": rng.choice([0, 1, -1, 7, 255, 10**20, -(10**15)])}
    if r < 0.4:
        return {"t": "str", "v": rng.choice(STRS)}
    if r < 0.48:
        return {"t": "float", "v": rng.choice([0.0, -0.0, 1.5, -2.25, 1e300, "inf", "-inf"])}
    if r < 0.54:
        return {"t": "complex", "v": rng.choice([[0, 1], [1.5, -2], [0, 0]])}
    if r < 0.62:
        return {"t": "bool", "v": rng.random() < 0.5}
    if r < 0.68:
        return {"t": "none"}
    if r < 0.74:
        return {"t": "bytes", "v": rng.choice(["", "ab", "\\x00"])}
    if r < 0.82:
        return {"t": "kw", "v": rng.choice(["k", "key-word", ":a", "::", "a:b"])}
    if plain:
        return {"t": "int", "v": 3}
    if r < 0.9:
        return {"t": "sym", "v": rng.choice(["foo", "a-b", "+"])}
    if r < 0.95:
        return {"t": "mint", "v": rng.choice([0, 5])}
    return {"t": "mstr", "v": rng.choice(STRS[:4])}


def gen_hashable(rng):
    r = rng.random()
    if r < 0.4:
        return {"t": "int", "v": rng.choice([1, 2, 3, 99, -4])}
    if r < 0.7:
        return {"t": "str", "v": rng.choice(STRS)}
    if r < 0.8:
        return {"t": "kw", "v": rng.choice(["k", "key-word"])}
    if r < 0.9:
        return {"t": "bytes", "v": "ab"}
    return {"t": "tuple", "items": [{"t": "int", "v": rng.choice([1, 2])}, {"t": "str", "v": "t"}]}


def gen_value(rng, depth, nmut, faulty, plain=False):
    """faulty: probability that a child of a mutable container is a ref / bad leaf."""
    r = rng.random()
    if depth <= 0 or r < 0.3:
        return gen_leaf(rng, plain)
    kinds = ["list", "list", "list", "tuple", "dict", "dict", "set"]
    if not plain:
        kinds += ["mlist", "mexpr", "mtuple", "mdict", "mset"]
    t = rng.choice(kinds)
    n = rng.choice([0, 1, 2, 2, 3, 4])

    made = []

    def child(mut_parent):
        if made and rng.random() < 0.12:
            # the SAME object again (shared but not cyclic)
            return {"t": "alias", "back": rng.randrange(1, len(made) + 1)}
        c = child0(mut_parent)
        made.append(c)
        return c

    def child0(mut_parent):
        if mut_parent and rng.random() < faulty:
            if rng.random() < 0.6:
                return {"t": "ref", "up": rng.randrange(1, nmut + 2)}
            return {"t": rng.choice(["obj", "fn", "sublist"])}
        return gen_value(rng, depth - 1, nmut + (1 if mut_parent else 0), faulty, plain)

    if t == "list":
        return {"t": t, "items": [child(True) for _ in range(n)]}
    if t == "dict":
        items, keys = [], []
        for _ in range(n):
            k = gen_hashable(rng)
            if any(_key_of(k) == _key_of(k2) for k2 in keys):
                continue
            keys.append(k)
            items.append([k, child(True)])
        return {"t": t, "items": items}
    if t == "set":
        items, keys = [], []
        for _ in range(n):
            k = gen_hashable(rng)
            if any(_key_of(k) == _key_of(k2) for k2 in keys):
                continue
            keys.append(k)
            items.append(k)
        return {"t": t, "items": items}
    if t == "mdict":
        n += n % 2
    items = [child(False) for _ in range(n)]
    if t == "mexpr" and items:
        items[0] = {"t": "sym", "v": "f"}
    return {"t": t, "items": items}


def _key_of(s):
    t = s["t"]
    if t == "int":
        return ("n", s["v"])
    if t == "str":
        return ("s", s["v"])
    if t == "tuple":
        return ("t", tuple(_key_of(x) for x in s["items"]))
    return (t, str(s.get("v")))


def _float(v):
    return float(v)


def build(spec, anc=None):
    M = _S["M"]
    anc = anc if anc is not None else []
    t = spec["t"]
    if t in ("int", "str", "bool"):
        return spec["v"]
    if t == "float":
        return float(spec["v"])
    if t == "complex":
        return complex(spec["v"][0], spec["v"][1])
    if t == "none":
        return None
    if t == "bytes":
        return spec["v"].encode("latin1").decode("unicode_escape").encode("latin1")
    if t == "kw":
        return M.Keyword(spec["v"])
    if t == "sym":
        return M.Symbol(spec["v"])
    if t == "mint":
        return M.Integer(spec["v"])
    if t == "mstr":
        return M.String(spec["v"])
    if t == "ref":
        return anc[-min(spec["up"], len(anc))]
    if t == "obj":
        return object()
    if t == "fn":
        return build
    if t == "sublist":
        return _S["SubList"]([1])
    if t == "deep":
        l = []
        for _ in range(spec["n"]):
            l = [l]
        return l
    def seq(specs):
        out = []
        real = []
        for s in specs:
            if s["t"] == "alias":
                v = real[-min(s["back"], len(real))] if real else 0
            else:
                v = build(s, anc)
                real.append(v)
            out.append(v)
        return out

    if t == "list":
        l = []
        anc.append(l)
        l.extend(seq(spec["items"]))
        anc.pop()
        return l
    if t == "dict":
        d = {}
        anc.append(d)
        vals = seq([v for _, v in spec["items"]])
        for (k, _), v in zip(spec["items"], vals):
            d[build(k, anc)] = v
        anc.pop()
        return d
    if t == "alias":
        return 0
    items = seq(spec["items"]) if t != "set" else [build(s, anc) for s in spec["items"]]
    if t == "tuple":
        return tuple(items)
    if t == "set":
        return set(items)
    return {"mlist": M.List, "mtuple": M.Tuple, "mset": M.Set, "mexpr": M.Expression, "mdict": M.Dict}[t](items)


# ------------------------------------------------------------------ independent reference promoter (walks the live object)


class RefFail(Exception):
    pass


def ref_promote(x, stack=None):
    """Expected model tree as nested ('TypeName', payload) tuples, from the
    documented type map -- no hy code involved."""
    M = _S["M"]
    stack = stack if stack is not None else []
    if any(x is a for a in stack):
        raise RefFail("cycle")
    tx = type(x)
    if tx is bool:
        return ("Symbol", "True" if x else "False")
    if x is None:
        return ("Symbol", "None")
    if tx is int:
        return ("Integer", x)
    if tx is float:
        return ("Float", repr(x))
    if tx is complex:
        return ("Complex", repr(x))
    if tx is str:
        return ("String", x)
    if tx is bytes:
        return ("Bytes", x.hex())
    if tx is M.Keyword:
        return ("Keyword", x.name)
    if tx is M.Symbol:
        return ("Symbol", str(x))
    if tx is M.Integer:
        return ("Integer", int(x))
    if tx is M.String:
        return ("String", str(x))
    if tx is M.Float:
        return ("Float", repr(float(x)))
    if tx is M.Complex:
        return ("Complex", repr(complex(x)))
    if tx is M.Bytes:
        return ("Bytes", bytes(x).hex())
    seqmap = {list: "List", tuple: "Tuple", set: "Set", M.List: "List", M.Tuple: "Tuple", M.Set: "Set",
              M.Expression: "Expression", M.Dict: "Dict"}
    if tx is dict:
        stack.append(x)
        try:
            out = []
            for k, v in x.items():
                out.append(ref_promote(k, stack))
                out.append(ref_promote(v, stack))
            return ("Dict", tuple(out))
        finally:
            stack.pop()
    if tx in seqmap:
        stack.append(x)
        try:
            return (seqmap[tx], tuple(ref_promote(e, stack) for e in x))
        finally:
            stack.pop()
    raise RefFail("unrepresentable")


def tree_of(m):
    """Observed model tree in the same notation."""
    M = _S["M"]
    tm = type(m)
    n = tm.__name__
    if tm.__module__ != "hy.models":
        return ("NOT-A-MODEL:" + n, repr(m)[:40])
    if isinstance(m, M.Sequence):
        return (n, tuple(tree_of(e) for e in m))
    if tm is M.Integer:
        return (n, int(m))
    if tm is M.Float:
        return (n, repr(float(m)))
    if tm is M.Complex:
        return (n, repr(complex(m)))
    if tm is M.Bytes:
        return (n, bytes(m).hex())
    if tm is M.Keyword:
        return (n, m.name)
    if tm in (M.String, M.Symbol):
        return (n, str(m))
    return (n, repr(m)[:40])


# ------------------------------------------------------------------ generation


def shape(spec, d=2):
    t = spec["t"]
    if d == 0 or t not in CONT:
        return t
    if t == "dict":
        kids = [shape(v, d - 1) for _, v in spec["items"]]
    else:
        kids = [shape(s, d - 1) for s in spec["items"]]
    return t + "(" + ",".join(kids) + ")"


def _paths(spec, prefix=()):
    """Paths to container sub-objects (index sequences through list/tuple/dict values/models)."""
    t = spec["t"]
    if t in ("list", "tuple", "mlist", "mtuple", "mexpr", "mset", "mdict"):
        for i, s in enumerate(spec["items"]):
            if s["t"] in CONT:
                yield prefix + (i,)
                yield from _paths(s, prefix + (i,))
    elif t == "dict":
        for i, (k, v) in enumerate(spec["items"]):
            if v["t"] in CONT:
                yield prefix + (i,)
                yield from _paths(v, prefix + (i,))


def _is_plain(spec):
    t = spec["t"]
    if t in ("sym", "mint", "mstr", "mlist", "mexpr", "mtuple", "mdict", "mset", "ref", "obj", "fn", "sublist", "deep", "alias"):
        return False
    if t == "float" and spec["v"] != spec["v"]:
        return False
    if t == "dict":
        return all(_is_plain(k) and _is_plain(v) for k, v in spec["items"])
    return all(_is_plain(s) for s in spec.get("items", []))


def generate(rng, tier):
    npool = rng.choice([1, 2, 2, 3])
    pool = []
    for _ in range(npool):
        faulty = rng.choice([0.0, 0.15, 0.3, 0.5])
        v = gen_value(rng, rng.choice([2, 3, 3, 4]), 0, faulty, plain=rng.random() < 0.5)
        if v["t"] not in MUT:
            v = {"t": "list", "items": [v]}
        if rng.random() < 0.25:
            # an existing model that holds raw (mutable) containers
            v = {"t": rng.choice(["mlist", "mtuple", "mexpr"]), "items": ([{"t": "sym", "v": "f"}] if rng.random() < 0.5 else []) + [v, {"t": "list", "items": [{"t": "int", "v": 1}]}]}
        pool.append(v)
    ops = []
    n = rng.randrange(4, 15)
    for _ in range(n):
        r = rng.random()
        slot = rng.randrange(npool)
        if r < 0.3:
            op = {"op": "promote", "slot": slot}
        elif r < 0.45:
            ps = list(_paths(pool[slot]))
            op = {"op": "promote_sub", "slot": slot, "path": list(rng.choice(ps))} if ps else {"op": "promote", "slot": slot}
        elif r < 0.5:
            op = {"op": "heal", "slot": slot}
        elif r < 0.55:
            op = {"op": "mutate", "slot": slot, "v": rng.randrange(1000)}
        elif r < 0.57:
            op = {"op": "fresh", "spec": {"t": "deep", "n": rng.choice([1500, 4000])}}
        elif r < 0.60:
            # something unrelated happens in between: the reader reads text through a reader macro that temporarily
            # extends the set of characters ending an identifier
            op = {"op": "reader_noise"}
        elif r < 0.65:
            # models that the READER produced (they carry source positions), put into plain containers in an order
            # that is not the source order, some of them twice
            idx = [rng.randrange(9) for _ in range(rng.randint(2, 5))]
            op = {"op": "promote_read", "idx": idx, "wrap": rng.choice(["list", "tuple", "nested", "dictval"])}
        elif r < 0.7 and ops and ops[-1]["op"] == "fresh":
            # same shape again (fresh allocation right after the previous, possibly failed, op)
            op = {"op": "fresh", "spec": ops[-1]["spec"], "times": rng.choice([1, 3, 8])}
        else:
            faulty = rng.choice([0.0, 0.0, 0.2, 0.4])
            op = {"op": "fresh", "spec": gen_value(rng, rng.choice([1, 2, 3, 4]), 0, faulty, plain=rng.random() < 0.6)}
        if op["op"] != "heal" and rng.random() < 0.15:
            op["k"] = rng.choice([rng.randrange(0, 6), rng.randrange(0, 30), rng.randrange(0, 100)])
            op["exc"] = rng.choice(["fault", "fault", "base"])
        ops.append(op)
    return {"pool": pool, "ops": ops}


# ------------------------------------------------------------------ execution


def _heal(obj, stack=None, seen=None):
    """In place: replace self-references and unrepresentable leaves that are direct
    children of lists / dict values by 0."""
    stack = stack or []
    seen = seen if seen is not None else set()
    if id(obj) in seen:
        return
    seen.add(id(obj))
    M = _S["M"]
    ok_leaf = (bool, int, float, complex, str, bytes, type(None), M.Object)

    def bad(v):
        if any(v is a for a in stack + [obj]):
            return True
        if isinstance(v, ok_leaf) or type(v) in (list, tuple, dict, set):
            return False
        return True

    if type(obj) is list:
        for i, v in enumerate(obj):
            if bad(v):
                obj[i] = 0
            else:
                _heal(v, stack + [obj], seen)
    elif type(obj) is dict:
        for k, v in list(obj.items()):
            if bad(v):
                obj[k] = 0
            else:
                _heal(v, stack + [obj], seen)
    elif isinstance(obj, tuple):
        for v in obj:
            _heal(v, stack + [obj], seen)


def _first_raw_list(obj, seen=None):
    seen = seen if seen is not None else set()
    if id(obj) in seen:
        return None
    seen.add(id(obj))
    if type(obj) is list:
        return obj
    if type(obj) is dict:
        kids = list(obj.values())
    elif isinstance(obj, tuple):
        kids = list(obj)
    else:
        return None
    for k in kids:
        r = _first_raw_list(k, seen)
        if r is not None:
            return r
    return None


def _navigate(obj, path):
    for i in path:
        if type(obj) is dict:
            vals = list(obj.values())
            if i >= len(vals):
                return None
            obj = vals[i]
        else:
            try:
                obj = obj[i]
            except Exception:
                return None
    return obj


def execute(desc):
    setup_worker()
    from sim import kernel
    hy, M = _S["hy"], _S["M"]
    HWE = _S["HyWrapperError"]
    pool = [build(s) for s in desc["pool"]]
    events, viols = [], []
    faults = {"self_reference": 0, "unrepresentable_leaf": 0, "recursion_error": 0, "injected_constructor_fault": 0}
    probes = {"promotions": 0, "checked_after_failure": 0, "same_object_after_failure": 0, "eval_round_trips": 0,
              "healed_then_promoted_ok": 0}
    failed_objs = []  # ids of pool slots whose promotion failed earlier
    failed_before = False
    nontrivial = False
    seq = []

    def promote(i, tag, x, spec_shape, k=None, exc=None, plain=False, slot=None, expect=None):
        nonlocal failed_before, nontrivial
        probes["promotions"] += 1
        try:
            exp = ("ok", ref_promote(x))
        except RefFail as e:
            exp = ("fail", str(e))
        except RecursionError:
            exp = ("fail", "recursion")
        tr = CrashTracer(_S["eligible"], k=k, exc=exc or "fault")
        res = None
        try:
            if exp == ("fail", "recursion") or k is None:
                res = hy.as_model(x)
            else:
                with tr:
                    res = hy.as_model(x)
            got = ("ok", None)
        except RecursionError:
            got = ("exc", "RecursionError")
        except (Exception, InjectedBaseFault) as e:
            got = ("exc", type(e).__name__)
        fired = tr.fired is not None
        if failed_before:
            probes["checked_after_failure"] += 1
            nontrivial = True
            if slot is not None and slot in failed_objs:
                probes["same_object_after_failure"] += 1
        note = None
        if fired:
            faults["injected_constructor_fault"] += 1
            if got[0] == "exc" and got[1] not in ("InjectedFault", "InjectedBaseFault") and not (
                    exp[0] == "fail" and got[1] == "HyWrapperError"):
                note = ("injected_fault_outcome", "an injected constructor fault surfaced as " + got[1])
        elif exp[0] == "ok":
            if got[0] != "ok":
                note = ("spurious_failure", f"promotion of a representable value raised {got[1]}")
            else:
                t = tree_of(res)
                if t != exp[1]:
                    note = ("wrong_tree", f"got {str(t)[:300]} expected {str(exp[1])[:300]}")
                else:
                    try:
                        again = hy.as_model(res)
                    except Exception as e:
                        again = None
                        note = ("idempotence", f"as_model(as_model(x)) raised {type(e).__name__}")
                    if note:
                        pass
                    elif tree_of(again) != t or not (again == res):
                        note = ("idempotence", f"as_model(as_model(x)) differs: {str(tree_of(again))[:300]}")
                    elif expect is not None:
                        try:
                            back = hy.eval(res, dict(SHADOWED), module=_S["mod"])
                            probes["eval_round_trips"] += 1
                            if not (back == expect) or type(back) is not type(expect):
                                note = ("eval_round_trip", f"hy.eval gave {back!r:.200}, the literals mean {expect!r:.200}")
                        except Exception as e:
                            note = ("eval_round_trip", f"hy.eval raised {type(e).__name__}: {e!s:.200}")
                    elif plain:
                        try:
                            back = hy.eval(res, dict(SHADOWED), module=_S["mod"])
                            probes["eval_round_trips"] += 1
                            if not (back == x) or type(back) is not type(x):
                                note = ("eval_round_trip", f"hy.eval gave {back!r:.200} for {x!r:.200}")
                        except RecursionError:
                            pass
                        except Exception as e:
                            note = ("eval_round_trip", f"hy.eval raised {type(e).__name__}: {e!s:.200}")
        else:
            if exp[1] == "recursion":
                faults["recursion_error"] += 1
                if got[0] == "ok":
                    pass  # deep but within limits: fine
            else:
                faults["self_reference" if exp[1] == "cycle" else "unrepresentable_leaf"] += 1
                if got != ("exc", "HyWrapperError"):
                    note = ("error_class", f"{exp[1]} input gave {got} instead of HyWrapperError")
        events.append([i, tag, spec_shape, k, got[0], got[1], exp[0]])
        seq.append((tag, spec_shape, got[1] or "ok"))
        if note:
            viols.append({"clause": note[0], "sig": tag, "detail": {"op": i, "why": note[1], "expected": exp[0],
                                                                      "after_failure": failed_before}})
        if got[0] == "exc":
            failed_before = True
            if slot is not None:
                failed_objs.append(slot)
            elif exp[1] == "cycle":
                # break the cycle so the fresh structure can be freed (address reuse for follow-ups)
                try:
                    _heal(x)
                except Exception:
                    pass
        if exp == ("fail", "recursion"):
            while x:
                x = x[0]

    for i, op in enumerate(desc["ops"]):
        kind = op["op"]
        if kind == "promote":
            s = desc["pool"][op["slot"]]
            promote(i, "pool", pool[op["slot"]], shape(s), op.get("k"), op.get("exc"), slot=op["slot"])
        elif kind == "promote_sub":
            x = _navigate(pool[op["slot"]], op["path"])
            if x is None or type(x) not in (list, tuple, dict, set) and not isinstance(x, M.Sequence):
                events.append([i, "sub-skip"])
                continue
            promote(i, "sub", x, "sub", op.get("k"), op.get("exc"), slot=op["slot"])
        elif kind == "mutate":
            tgt = _first_raw_list(pool[op["slot"]])
            if tgt is not None:
                tgt.append(op["v"])
                probes["mutations_between_promotions"] = probes.get("mutations_between_promotions", 0) + 1
            events.append([i, "mutate", op["slot"], tgt is not None])
            promote(i, "mutated", pool[op["slot"]], "mutated", slot=op["slot"])
        elif kind == "reader_noise":
            import types as _types
            nm = _types.ModuleType("c29noise")
            kw_before = M.Keyword("max-size")   # built before the noise; only hy.as_model runs after it
            try:
                hy.eval(hy.read_many('(defreader dur (with [(&reader.end-identifier "s")] (setv n (.parse-one-form &reader))) '
                                     '(.getc &reader) n)\n(setv noise [#dur 90s #dur 5s])\n'), module=nm)
                ok_noise = list(nm.noise) == [90, 5]
            except BaseException as e:
                ok_noise = "%s: %s" % (type(e).__name__, str(e)[:100])
            if ok_noise is not True:
                # not this check's business (the reader is only noise here); the promotions that follow are judged
                probes["reader_noise_read_differently"] = probes.get("reader_noise_read_differently", 0) + 1
            probes["reader_noise_between_promotions"] = probes.get("reader_noise_between_promotions", 0) + 1
            events.append([i, "reader_noise"])
            # right afterwards: values whose promotion goes through Symbol / Keyword validation
            promote(i, "after_noise", [False, None, True, kw_before, "s"], "after_noise",
                    expect=[False, None, True, kw_before, "s"])
        elif kind == "promote_read":
            models = list(hy.read_many(READ_SRC))
            vals = [1, "two", 3.5, M.Keyword("kw"), [4, 5], (6, "x"), True, b"by", {7: 8}]
            ms = [models[j] for j in op["idx"]]
            vs = [vals[j] for j in op["idx"]]
            w = op["wrap"]
            if w == "list":
                x, want = list(ms), list(vs)
            elif w == "tuple":
                x, want = tuple(ms), tuple(vs)
            elif w == "nested":
                x, want = [ms[0], list(ms[1:]), tuple(ms)], [vs[0], list(vs[1:]), tuple(vs)]
            else:
                x, want = {"k": list(ms), 2: ms[-1]}, {"k": list(vs), 2: vs[-1]}
            probes["reader_model_promotions"] = probes.get("reader_model_promotions", 0) + 1
            promote(i, "read", x, "read:" + w, expect=want)
        elif kind == "heal":
            _heal(pool[op["slot"]])
            events.append([i, "heal", op["slot"]])
            before = len(viols)
            was_failed = op["slot"] in failed_objs
            promote(i, "healed", pool[op["slot"]], "healed", slot=op["slot"])
            if was_failed and len(viols) == before:
                probes["healed_then_promoted_ok"] += 1
        else:
            for rep in range(op.get("times", 1)):
                x = build(op["spec"])
                promote(i, "fresh", x, shape(op["spec"]), op.get("k") if rep == 0 else None, op.get("exc"),
                        plain=_is_plain(op["spec"]))
                del x
    # closing probes: fixed fresh values must promote normally
    for j, spec in enumerate(CLOSING):
        for rep in range(3):
            promote(len(desc["ops"]) + j, "closing", build(spec), shape(spec), plain=True)

    sigs = [kernel.digest(seq)] if nontrivial else []
    return {"events": events, "violations": viols[:4], "faults": faults, "probes": probes, "sigs": sigs,
            "steps": probes["promotions"]}


# the promoted tree is made of literals only: evaluating it must not depend on what these names mean in the namespace
SHADOWED = {n: "shadowed" for n in ("set", "list", "dict", "tuple", "frozenset", "str", "bytes", "int", "float", "complex", "bool",
                                     "print", "len", "type", "object")}

READ_SRC = '1\n"two"\n3.5\n:kw\n[4 5]\n#(6 "x")\nTrue\nb"by"\n{7 8}\n'

CLOSING = [
    {"t": "list", "items": [{"t": "int", "v": 1}, {"t": "list", "items": [{"t": "str", "v": "a"}, {"t": "dict", "items": [[{"t": "int", "v": 1}, {"t": "list", "items": []}]]}]}]},
    {"t": "dict", "items": [[{"t": "str", "v": "k"}, {"t": "tuple", "items": [{"t": "none"}, {"t": "bool", "v": True}]}]]},
    {"t": "set", "items": [{"t": "int", "v": 5}]},
]


# ------------------------------------------------------------------ shrinking


def _simpler(spec):
    t = spec["t"]
    if t == "dict":
        items = spec["items"]
        for i in range(len(items)):
            yield dict(spec, items=items[:i] + items[i + 1:])
        for i, (k, v) in enumerate(items):
            for v2 in _simpler(v):
                yield dict(spec, items=items[:i] + [[k, v2]] + items[i + 1:])
    elif t in CONT:
        items = spec["items"]
        for i in range(len(items)):
            yield dict(spec, items=items[:i] + items[i + 1:])
        if t != "set":
            for i, s in enumerate(items):
                for s2 in _simpler(s):
                    yield dict(spec, items=items[:i] + [s2] + items[i + 1:])
    elif t not in ("int", "ref", "obj", "deep", "alias"):
        yield {"t": "int", "v": 1}
    elif t == "deep" and spec["n"] > 1100:
        yield dict(spec, n=1100)


def shrink(desc):
    ops, pool = desc["ops"], desc["pool"]
    n = len(ops)
    size = n // 2
    while size >= 1:
        for i in range(0, n, size):
            yield dict(desc, ops=ops[:i] + ops[i + size:])
        size //= 2
    for i, op in enumerate(ops):
        if "k" in op:
            yield dict(desc, ops=ops[:i] + [{a: b for a, b in op.items() if a not in ("k", "exc")}] + ops[i + 1:])
            if op["k"]:
                yield dict(desc, ops=ops[:i] + [dict(op, k=op["k"] // 2)] + ops[i + 1:])
        if op.get("times", 1) > 1:
            yield dict(desc, ops=ops[:i] + [dict(op, times=1)] + ops[i + 1:])
        if op["op"] == "promote_sub":
            yield dict(desc, ops=ops[:i] + [{"op": "promote", "slot": op["slot"]}] + ops[i + 1:])
    used = {op.get("slot") for op in ops}
    for s in range(len(pool)):
        if s not in used and len(pool) > 1:
            np_ = pool[:s] + pool[s + 1:]
            nops = [dict(o, slot=o["slot"] - (o["slot"] > s)) if "slot" in o else o for o in ops]
            yield dict(desc, pool=np_, ops=nops)
    for s, spec in enumerate(pool):
        for s2 in _simpler(spec):
            if s2["t"] in MUT:
                yield dict(desc, pool=pool[:s] + [s2] + pool[s + 1:])
    for i, op in enumerate(ops):
        if op["op"] == "fresh":
            for s2 in _simpler(op["spec"]):
                yield dict(desc, ops=ops[:i] + [dict(op, spec=s2)] + ops[i + 1:])
