"""C38 -- hy.gensym returns distinct reserved symbols under any thread schedule.

Workload: 2-4 simulated threads, each calling hy.gensym 1-3 times with drawn
arguments.  Schedule: every bytecode boundary inside frames of the file that
defines gensym, every line boundary in other hy/ frames, every lock operation.
Oracle (black box, on results only): pairwise distinct, `_hy_` prefix, mangle
is the identity, type is hy.models.Symbol.
"""
import dis
import os
import random
import re
import sys

from sim.engines import threads as T

PROPERTY = "C38"
LEVEL = "exploration"
ISOLATE = False
RUN_TIMEOUT = 60.0
RULE = ("one run = 2-4 real threads x 1-3 hy.gensym calls under a seeded baton-passing scheduler "
        "(policy swarm: random-switch p in 0.02..0.5, PCT d=1..3, round-robin n=1..7); a run is non-trivial when "
        "at least one context switch happened while some thread stood inside the gensym frame; distinct = "
        "distinct sequences of (from-thread, to-thread, frame, bytecode offset) at context switches")
REAL = ["hy.gensym (hy/core/util.hy) as compiled from the working tree", "hy.mangle", "hy.models.Symbol",
        "CPython threads (real threading.Thread objects, real frames and bytecode)"]
STUB = ["the lock object (SimLock: same API, blocking hands the baton to the scheduler)",
        "the choice of which thread runs next (seeded chooser at every opcode/line/lock yield point)"]
ASSUMPTIONS = ["pre-emption happens only at bytecode boundaries of Python-level code (what the GIL allows)",
               "locks created by the module under test are reachable as threading.Lock/RLock at import or call time"]

_state = {}

ARGS = [
    {"k": "none"}, {"k": "str", "v": ""}, {"k": "str", "v": "x"}, {"k": "str", "v": "foo"},
    {"k": "str", "v": "foo-bar"}, {"k": "str", "v": "foo_bar"}, {"k": "str", "v": "a1"}, {"k": "str", "v": "9"},
    {"k": "str", "v": "☃"}, {"k": "str", "v": "a b"}, {"k": "str", "v": "!"}, {"k": "str", "v": "-"},
    {"k": "str", "v": "_"}, {"k": "str", "v": "--x"}, {"k": "str", "v": "hyx_"}, {"k": "str", "v": "été"},
    {"k": "str", "v": "a?"}, {"k": "str", "v": "*x*"}, {"k": "int", "v": 7}, {"k": "int", "v": -3},
    {"k": "kw", "v": "key"}, {"k": "sym", "v": "some-sym"}, {"k": "str", "v": "a.b"}, {"k": "float", "v": 1.5},
    {"k": "str", "v": "\ufb01"}, {"k": "str", "v": "\u00b5"}, {"k": "str", "v": "\uff26oo"}, {"k": "str", "v": "\u2171"},
    {"k": "str", "v": "x\u0301"}, {"k": "str", "v": "\U0001d525"}, {"k": "str", "v": "\u01c5"}, {"k": "str", "v": "hyx_Xfoo"},
    # programmable arguments: their text conversion raises, calls hy.gensym again (re-entrancy on the
    # same thread), or runs traced hy code (more pre-emption points in the middle of gensym)
    {"k": "obj", "b": "raise"}, {"k": "obj", "b": "raise_base"}, {"k": "obj", "b": "reenter"},
    {"k": "obj", "b": "steps"}, {"k": "obj", "b": "reenter"}, {"k": "obj", "b": "raise"},
]
ALIAS_PAIRS = [("a-b", "a_b"), ("\ufb01x", "fix"), ("\u2022", "XbulletX"), ("foo-bar", "foo_bar"), ("\uff26oo", "Foo"), ("a", "a"),
               ("x!", "xXexclamation_markX"), ("", ""), ("\u00b5", "\u03bc"), ("1", "1")]
CHARS = "abcxyzXYZ019-_!?*+<>=/ \u00e9\ufb01\u00b5\uff21\u2171\u2603\u0301\U0001d525\u01c5\u00aa\u2460\u212b\u1e9b\u0323"


def _snapshot(U):
    """Import-time value of every scalar / lock / counter global of the module under
    test: each run starts from the state a freshly imported module has."""
    import copy, itertools
    snap = {}
    for k, v in vars(U).items():
        if k.startswith("__"):
            continue
        if v is None or type(v) in (int, bool) or isinstance(v, itertools.count):
            snap[k] = ("value", copy.copy(v))
        elif isinstance(v, T.SimLock):
            snap[k] = ("lock", v._reentrant)
    return snap


def _restore():
    import copy
    U = _state["U"]
    for k, (kind, v) in _state["snapshot"].items():
        setattr(U, k, copy.copy(v) if kind == "value" else T.SimLock(v))


def setup_worker():
    if _state:
        return
    import threading
    with T.patched_locks():
        import hy
        import hy.core.util as U
    adopted = T.adopt_module_locks(U)
    _state["U"] = U
    _state["snapshot"] = _snapshot(U)  # before any gensym call
    import hy.models
    # warm-up outside the simulation: performs hy's lazy imports
    with T.patched_locks():
        hy.gensym()
        hy.gensym("x-y")
    hy.mangle("a-b")
    # the reader and the importer too (reader actions and the source import are part of some runs): everything they
    # initialise lazily must already be there, or the first run that uses them would see other yield points
    for _ in range(2):
        hy.read("_hy_gensym_q_1")
        hy.read("(a-b [1 2] \"s\")")
    _state["hy"] = hy
    _state["adopted"] = adopted
    code = hy.gensym.__code__
    _state["file"] = code.co_filename
    _state["hydir"] = os.path.dirname(os.path.abspath(hy.__file__)) + os.sep
    # critical window probe: offsets between the first load and the last store of a
    # module-global integer counter inside gensym (if the implementation has one)
    win = None
    loads, stores = [], []
    for ins in dis.get_instructions(code):
        if ins.opname in ("LOAD_GLOBAL", "LOAD_NAME") and "counter" in str(ins.argval):
            loads.append(ins.offset)
        if ins.opname in ("STORE_GLOBAL", "STORE_NAME") and "counter" in str(ins.argval):
            stores.append(ins.offset)
    if loads and stores:
        win = (min(loads), max(stores))
    _state["window"] = win
    _state["gensym_name"] = code.co_name
    with T.patched_locks():
        _state["warm_counts"] = T.warm_trace(lambda: hy.gensym("w"), {_state["file"]})
    _import_from_source()
    _import_from_source()


def plan(tier):
    if tier == "thorough":
        return {"runs": 300000, "budget_s": 1500, "chunk": 200, "recheck": 16, "shrink_s": 120}
    return {"runs": 8000, "budget_s": 120, "chunk": 50, "recheck": 8, "shrink_s": 45}


def generate(rng, tier):
    nthreads = rng.choice([2, 2, 3, 3, 4])
    threads = []
    for _ in range(nthreads):
        calls = []
        for _ in range(rng.choice([1, 1, 2, 3])):
            r = rng.random()
            if r < 0.2:
                calls.append({"k": "none"})
            elif r < 0.75:
                calls.append(rng.choice(ARGS))
            else:
                calls.append({"k": "str", "v": "".join(rng.choice(CHARS) for _ in range(rng.randrange(1, 5)))})
        threads.append(calls)
    if rng.random() < 0.15:
        # some thread READS source text that mentions a gensym-style name with a number near the counter
        t = rng.randrange(nthreads)
        if rng.random() < 0.7:
            # ... while the other calls use the same (empty) label, so that a counter that moves backwards shows
            threads = [[{"k": "none"} for _ in calls] for calls in threads]
        threads[t].insert(rng.randrange(len(threads[t]) + 1), {"k": "read", "n": rng.choice([1, 1, 2, 2, 3, 4])})
    if rng.random() < 0.2:
        # two calls (same or different threads) whose labels are distinct strings with the same mangling, or equal
        a, b = rng.choice(ALIAS_PAIRS)
        slots = [(t, c) for t, calls in enumerate(threads) for c in range(len(calls))]
        if len(slots) >= 2:
            (t1, c1), (t2, c2) = rng.sample(slots, 2)
            threads[t1][c1] = {"k": "str", "v": a}
            threads[t2][c2] = {"k": "str", "v": b}
    pol = rng.choice(["random", "random", "pct", "rr"])
    if pol == "random":
        sched = {"policy": "random", "p": rng.choice([0.02, 0.05, 0.1, 0.2, 0.35, 0.5])}
    elif pol == "pct":
        sched = {"policy": "pct", "d": rng.choice([1, 2, 3]), "horizon": rng.choice([40, 80, 150, 300])}
    else:
        sched = {"policy": "rr", "n": rng.choice([1, 2, 3, 5, 7])}
    sched["seed"] = rng.getrandbits(48)
    # afterwards a Hy module whose macros call gensym at compile time is imported from source
    return {"threads": threads, "sched": sched, "followup": 2, "import_src": rng.random() < 0.12,
            "sde": rng.random() < 0.5}   # the import happens with SOURCE_DATE_EPOCH set (reproducible-build configuration)


def _mkarg(spec, sink=None):
    hy = _state["hy"]
    k = spec["k"]
    if k == "none":
        return ()
    if k in ("str", "int", "float"):
        return (spec["v"],)
    if k == "kw":
        return (hy.models.Keyword(spec["v"]),)
    if k == "sym":
        return (hy.models.Symbol(spec["v"]),)
    if k == "obj":
        return (_Prog(spec["b"], sink),)
    raise ValueError(k)


class _ArgFault(Exception):
    pass


class _ArgBaseFault(BaseException):
    pass


class _Prog:
    """Argument whose conversion to text (by whatever protocol gensym uses) follows a plan."""

    def __init__(self, behaviour, sink):
        self.b = behaviour
        self.sink = sink
        self.depth = 0

    def _act(self):
        hy = _state["hy"]
        if self.b == "raise":
            raise _ArgFault("planned")
        if self.b == "raise_base":
            raise _ArgBaseFault("planned")
        if self.b == "reenter" and self.depth == 0:
            self.depth += 1
            try:
                self.sink(hy.gensym("inner"))
            finally:
                self.depth -= 1
        if self.b == "steps":
            for w in ("a-b", "c?", "d!e"):
                hy.mangle(w)
        return "prog"

    def __format__(self, spec):
        return self._act()

    def __str__(self):
        return self._act()

    def __repr__(self):
        return self._act()


_num = re.compile(r"(\d+)$")


def _import_from_source():
    """Imports a fresh Hy module from SOURCE; its macro calls hy.gensym while the module is compiled.  Returns the
    symbols those calls produced."""
    import importlib
    base = os.path.join(os.environ.get("VERIF_SCRATCH") or "/tmp", "c38mods-%d" % os.getpid())
    os.makedirs(base, exist_ok=True)
    _state["nimp"] = _state.get("nimp", 0) + 1
    name = "c38m_%d_%d" % (os.getpid(), _state["nimp"])
    path = os.path.join(base, name + ".hy")
    with open(path, "w") as f:
        f.write('(defmacro c38g [] (setv g (hy.gensym)) `(quote ~g))\n(defmacro c38x [] (setv g (hy.gensym "x")) `(quote ~g))\n(setv syms [(c38g) (c38g) (c38x) (hy.gensym) (hy.gensym "x")])\n')
    sys.path.insert(0, base)
    try:
        importlib.invalidate_caches()
        with T.patched_locks():
            mod = importlib.import_module(name)
        return list(mod.syms)
    finally:
        sys.path.remove(base)
        sys.modules.pop(name, None)
        try:
            os.remove(path)
        except OSError:
            pass


def execute(desc):
    setup_worker()
    hy = _state["hy"]
    _restore()
    spec = desc["sched"]
    chooser = T.make_chooser(spec, random.Random(spec.get("seed", 0)), len(desc["threads"]))
    sched = T.Scheduler(chooser)
    # a timed wait on a held lock may expire (the holder is stalled in simulated time): decided by the run's PRNG
    if spec["policy"] == "replay":
        sched.timeout_plan = list(spec.get("timeouts", []))
    else:
        sched.timeout_rng = random.Random(spec.get("seed", 0) ^ 0x5A17)
    results = []  # (tid, call index, 'ok'/'exc', obj)
    win = _state["window"]
    gname = _state["gensym_name"]

    def on_switch(s, frm, to, label):
        # where do the *parked* threads stand?  (frm has just been parked at label)
        if label and label[0] == gname and isinstance(label[1], int):
            s.probe("switch_inside_gensym")
            if win and win[0] <= label[1] <= win[1]:
                s.probe("switch_between_counter_load_and_store")

    sched.on_switch = on_switch

    def mk(tid, calls):
        def body():
            for ci, c in enumerate(calls):
                if c["k"] == "read":
                    try:
                        hy.read("_hy_gensym_q_%d" % c["n"])
                    except T.SimAbort:
                        raise
                    except Exception:
                        pass
                    continue
                try:
                    r = hy.gensym(*_mkarg(c, lambda x, ci=ci: results.append((tid, 100 + ci, "ok", x))))
                    results.append((tid, ci, "ok", r))
                except T.SimAbort:
                    raise
                except (Exception, _ArgBaseFault) as e:
                    results.append((tid, ci, "exc", type(e).__name__))
        return body

    with T.patched_locks():  # a lock created at call time is a simulated lock too
        outcome = sched.run([mk(t, c) for t, c in enumerate(desc["threads"])],
                            trace_files={_state["file"]}, trace_line_prefix=_state["hydir"])
    if outcome == "watchdog":
        raise RuntimeError("harness: watchdog fired (thread blocked on a lock the simulator does not own)")
    follow = []
    outcome2 = None
    if desc.get("followup", 0) and not outcome:
        # the closing calls run as one simulated thread, so a lock that an earlier (failed, re-entrant or
        # pre-empted) call left held shows as a deadlock instead of being bypassed by the real lock
        def closing():
            for _ in range(desc["followup"]):
                follow.append(hy.gensym())
        sched2 = T.Scheduler(T.Replay([]))
        with T.patched_locks():
            outcome2 = sched2.run([closing], trace_files=set(), trace_line_prefix=None)
        if outcome2 == "watchdog":
            raise RuntimeError("harness: watchdog fired in the closing calls")

    imported = []
    if desc.get("import_src") and not outcome and not outcome2:
        saved_sde = os.environ.get("SOURCE_DATE_EPOCH")
        if desc.get("sde"):
            os.environ["SOURCE_DATE_EPOCH"] = "1700000000"
        try:
            imported = _import_from_source()
        finally:
            if saved_sde is None:
                os.environ.pop("SOURCE_DATE_EPOCH", None)
            else:
                os.environ["SOURCE_DATE_EPOCH"] = saved_sde
    viols = []
    if outcome == "deadlock":
        viols.append({"clause": "deadlock", "sig": "deadlock",
                      "detail": "all unfinished threads blocked on the lock: " + repr(sched.switches[-6:])})
    elif outcome:
        raise RuntimeError("harness: run aborted: " + str(outcome))
    elif outcome2 == "deadlock":
        viols.append({"clause": "deadlock", "sig": "deadlock_after",
                      "detail": "a call made after all threads had finished blocks on the lock (left held by an earlier call)"})
    elif outcome2:
        raise RuntimeError("harness: closing calls aborted: " + str(outcome2))
    oks = [(t, c, r) for (t, c, k, r) in results if k == "ok"] + [("main", i, r) for i, r in enumerate(follow)] + \
        [("import", i, r) for i, r in enumerate(imported)]
    if outcome == "deadlock" or outcome2 == "deadlock":
        oks = []   # after a deadlock the threads are released without scheduling: what they return means nothing
        results = [r for r in results if False]
    names = [str(r) for (_, _, r) in oks]
    seen = {}
    for (t, c, r), nm in zip(oks, names):
        if nm in seen:
            viols.append({"clause": "distinct", "sig": "distinct",
                          "detail": f"symbol {nm!r} returned to thread {seen[nm]} and to thread {(t, c)}"})
            break
        seen[nm] = (t, c)
    for (t, c, r), nm in zip(oks, names):
        if type(r) is not hy.models.Symbol:
            viols.append({"clause": "type", "sig": "type", "detail": f"{type(r).__name__} returned for {(t, c)}"})
            break
    for (t, c, r), nm in zip(oks, names):
        if not nm.startswith("_hy_"):
            viols.append({"clause": "prefix", "sig": "prefix", "detail": f"{nm!r} does not start with _hy_"})
            break
    for (t, c, r), nm in zip(oks, names):
        try:
            m = hy.mangle(nm)
        except Exception as e:
            m = "raise " + type(e).__name__
        if m != nm:
            viols.append({"clause": "mangled", "sig": "mangled", "detail": f"mangle({nm!r}) = {m!r}"})
            break

    # normalised event log
    nums = [int(m.group(1)) for m in map(_num.search, names) if m]
    base = min(nums) if nums else 0

    def norm(nm):
        m = _num.search(nm)
        return nm[: m.start()] + "#" + str(int(m.group(1)) - base) if m else nm

    events = [["switch"] + list(map(str, s)) for s in sched.switches]
    for (t, c, k, r) in sorted(results, key=lambda x: (x[0], x[1])):
        events.append(["result", t, c, k, norm(str(r)) if k == "ok" else r])
    events.append(["outcome", str(outcome), str(outcome2), sched.steps])
    inside = sched.probes.get("switch_inside_gensym", 0)
    sigs = []
    if inside:
        from sim.kernel import digest
        sigs.append(digest([s for s in sched.switches]))
    return {"events": events, "violations": viols, "decisions": sched.decisions, "timeouts": sched.timeouts,
            "faults": {"preemption_inside_gensym": inside,
                       "preemption_between_counter_load_and_store":
                           sched.probes.get("switch_between_counter_load_and_store", 0),
                       "contended_lock_acquire": sched.probes.get("acquire_on_held_lock", 0),
                       "argument_raises": sum(1 for r in results if r[2] == "exc"),
                       "reentrant_gensym_call": sum(1 for r in results if r[2] == "ok" and r[1] >= 100),
                       "source_import_with_compile_time_gensym": int(bool(imported)),
                       "reader_sees_gensym_style_name": sum(1 for calls in desc["threads"] for c in calls if c["k"] == "read")},
            "probes": dict(sched.probes, context_switches=len(sched.switches),
                           adopted_locks=_state["adopted"]),
            "sigs": sigs, "steps": sched.steps}


def shrink(desc):
    """Candidates: make the schedule explicit, drop threads/calls, simplify
    arguments, truncate the decision list, turn single switches into 'stay'."""
    from sim import kernel
    if desc["sched"]["policy"] != "replay":
        kernel._CHECK = sys.modules[__name__]
        res = kernel.run_isolated(kernel._exec_desc, desc, 60)
        d = dict(desc)
        d["sched"] = {"policy": "replay", "decisions": res["decisions"], "timeouts": res.get("timeouts", [])}
        yield d
        return
    th = desc["threads"]
    dec = desc["sched"]["decisions"]
    if desc.get("followup"):
        yield dict(desc, followup=0)
    if desc.get("import_src"):
        yield dict(desc, import_src=False)
    # drop a whole thread (renumber decisions)
    if len(th) > 2:
        for i in range(len(th)):
            nd = [x - (x > i) for x in dec if x != i]
            yield dict(desc, threads=th[:i] + th[i + 1:], sched={"policy": "replay", "decisions": nd, "timeouts": desc["sched"].get("timeouts", [])})
    # drop a call
    for i, calls in enumerate(th):
        if len(calls) > 1:
            for j in range(len(calls)):
                yield dict(desc, threads=th[:i] + [calls[:j] + calls[j + 1:]] + th[i + 1:])
    # simplify args
    for i, calls in enumerate(th):
        for j, c in enumerate(calls):
            if c != {"k": "none"}:
                yield dict(desc, threads=th[:i] + [calls[:j] + [{"k": "none"}] + calls[j + 1:]] + th[i + 1:])
    # truncate decisions (tail falls back to "stay on the running thread")
    n = len(dec)
    cut = n // 2
    while cut >= 1:
        if n - cut >= 0:
            yield dict(desc, sched={"policy": "replay", "decisions": dec[: n - cut], "timeouts": desc["sched"].get("timeouts", [])})
        cut //= 2
    # remove single switches
    prev = None
    for i, x in enumerate(dec):
        if prev is not None and x != prev:
            yield dict(desc, sched={"policy": "replay", "decisions": dec[:i] + [prev] + dec[i + 1:], "timeouts": desc["sched"].get("timeouts", [])})
        prev = x
