"""C39 -- hy.eval returns the last value and restores the caller's `hy` binding.

A run is a history of 1-6 hy.eval calls sharing 1-3 plain dicts (with and without
a prior `hy` entry, including falsy prior values and empty dicts).  Each call
evaluates a generated program (single model, `(do ...)`, or a lazily read
hy.read_many stream) under one of three argument shapes (globals only, globals +
locals, locals only).

Faults: exception raised by the simulator at the c-th dynamic effect `(E n)` of
the evaluated code -- at run time, inside macro bodies / eval-when-compile /
eval-and-compile bodies at compile time, inside a nested hy.eval on the same
dict; programs with run-time errors, compile errors and reader errors
mid-stream; and (history executed in a forked child, armed call last) an
exception injected at the k-th line event inside frames of hy/ files during the
call -- every frame except hy.eval's own entry frame, whose bookkeeping lines no
Python code could protect.

Oracle after EVERY call: each dict has a `hy` entry exactly when it had one
before, holding the same object; a fault-free call returns the last form's value;
a fired run-time fault escapes as itself.
"""
import os
import sys
import types

from sim.engines.crashpoints import CrashTracer, InjectedFault, InjectedBaseFault
from sim.engines.effects import Effects, CLASSES

PROPERTY = "C39"
LEVEL = "exploration"
ISOLATE = False
RUN_TIMEOUT = 120.0
RULE = ("one run = a history of 1-6 hy.eval calls over shared dicts; per call a generated program, an argument shape and a "
        "fault plan (effect faults at run/compile time, error forms, internal crash points at sampled line events of hy/ "
        "frames). Non-trivial = a call in which a fault fired or an error form failed, with the binding clause checked "
        "afterwards; distinct = distinct (shape, prior-hy kind, mode, failure phase, failure class, fired position bucket) tuples "
        "per call, hashed per history")
REAL = ["hy.eval (hy_eval_user, hy_eval), reader, macro expander, compiler, CPython exec/eval"]
STUB = ["the effect function E called by generated programs (owned by the simulator, raises by plan)",
        "internal faults: sys.settrace raising at the k-th line event in hy/ frames (forked child per such history)"]
ASSUMPTIONS = ["programs never rebind `hy` themselves (global hy / setv hy)",
               "asynchronous exceptions inside hy.eval's own entry frame (the finally bookkeeping) are not injected"]

_S = {}
SENT = [object(), None, 0, ""]
SENT_NAMES = ["object", "None", "0", "empty-str"]


def setup_worker():
    if _S:
        return
    import hy
    import hy.models
    import hy.errors
    import hy.compiler
    from hy.reader.exceptions import LexException, PrematureEndOfInput
    _S["hy"] = hy
    _S["hydir"] = os.path.dirname(os.path.abspath(hy.__file__)) + os.sep
    _S["entry_code"] = hy.compiler.hy_eval_user.__code__
    _S["errors"] = hy.errors
    _S["Lex"] = LexException
    _S["PEOI"] = PrematureEndOfInput
    _S["modn"] = 0
    # warm up lazy imports
    hy.eval(hy.read("(do (defmacro c39w [] 1) [(c39w) :k])"), {}, module=types.ModuleType("c39warm"))


def plan(tier):
    if tier == "thorough":
        return {"runs": 60000, "budget_s": 1500, "chunk": 60, "recheck": 16, "shrink_s": 120}
    return {"runs": 2400, "budget_s": 150, "chunk": 25, "recheck": 8, "shrink_s": 45}


# ------------------------------------------------------------------ program generation


class _G:
    def __init__(self, rng):
        self.rng = rng
        self.tag = 0
        self.n = 0

    def t(self):
        self.tag += 1
        return self.tag

    def name(self, p):
        self.n += 1
        return "%s%d" % (p, self.n)


def gen_form(g, allow_E=True, stream=False, errors=True):
    """Returns {"src", "val", optional "err": kind, "ct": [compile-capable tags]}."""
    rng = g.rng
    if not allow_E:
        r = rng.random()
        if r < 0.4:
            a = rng.randrange(100)
            return {"src": str(a), "val": ["int", a]}
        if r < 0.7:
            k = g.name("kw")
            return {"src": ":" + k, "val": ["kw", k]}
        if r < 0.85:
            v = g.name("v")
            return {"src": f"(setv {v} 5)", "val": ["none"]}
        a = rng.randrange(50)
        return {"src": f"(do (setv w {a}) [w (+ w 1)])", "val": ["list", [a, a + 1]]}
    r = rng.random()
    if errors and r < 0.12:
        kind = rng.choice(["zerodiv", "name", "compile"] + (["reader_close", "reader_open"] if stream else []))
        if kind == "zerodiv":
            return {"src": f"(/ (E {g.t()}) 0)", "val": ["none"], "err": "ZeroDivisionError"}
        if kind == "name":
            return {"src": g.name("undefined-name-"), "val": ["none"], "err": "NameError"}
        if kind == "compile":
            return {"src": rng.choice(["(setv x)", "(if)", "(defn)", "(fn)", "(get)", "(defn nlh [] (nonlocal hy) 1)",
                                       "(fn [] (nonlocal no-such-binding))"]), "val": ["none"], "err": "compile"}
        if kind == "reader_close":
            return {"src": ")", "val": ["none"], "err": "reader"}
        return {"src": "(foo [1 2", "val": ["none"], "err": "reader"}
    if r < 0.2:
        a = rng.randrange(1000)
        return {"src": str(a), "val": ["int", a]}
    if r < 0.32:
        t = g.t()
        return {"src": f"(E {t})", "val": ["int", t]}
    if r < 0.42:
        t1, t2 = g.t(), g.t()
        return {"src": f"(+ (E {t1}) (E {t2}))", "val": ["int", t1 + t2]}
    if r < 0.5:
        v, t = g.name("v"), g.t()
        return {"src": f"(setv {v} (E {t}))", "val": ["none"]}
    if r < 0.58:
        v, t = g.name("v"), g.t()
        return {"src": f"(do (setv {v} (E {t})) (* {v} 2))", "val": ["int", 2 * t]}
    if r < 0.64:
        t1, t2, t3 = g.t(), g.t(), g.t()
        return {"src": f"(if (E {t1}) (E {t2}) (E {t3}))", "val": ["int", t2]}
    if r < 0.72:
        k = g.name("kw")
        return {"src": ":" + k, "val": ["kw", k]}
    if r < 0.8:
        m, t1, t2 = g.name("mac"), g.t(), g.t()
        return {"src": f"(do (defmacro {m} [] (E {t1}) '(E {t2})) ({m}))", "val": ["int", t2], "ct": [t1]}
    if r < 0.83:
        t = g.t()
        return {"src": f"(eval-when-compile (E {t}))", "val": ["none"], "ct": [t]}
    if r < 0.87:
        # forms whose value lives in a compiler temporary (match, try, with): a case that is not taken, a guard that
        # fails, a last form that leaves nothing behind
        a, t1, t2 = rng.randrange(2, 900), g.t(), g.t()
        return rng.choice([
            {"src": f"(match {a} {a} (E {t1}) _ (E {t2}))", "val": ["int", t1]},
            {"src": f"(match {a} {a + 1} (E {t1}) _ :if False (E {t2}))", "val": ["none"]},
            {"src": f"(match [1 {a}] [x y] :if (> y 1000) (E {t1}) [x y] (+ x y (E {t2})))", "val": ["int", 1 + a + t2]},
            {"src": f"(match {a} x :if (< x 0) (E {t1}))", "val": ["none"]},
            {"src": f"(try (E {t1}) (except [ValueError] (E {t2})))", "val": ["int", t1]},
            {"src": f"(do (E {t1}) (do))", "val": ["none"]},
            {"src": f"(do {a} (pragma :warn-on-core-shadow True))", "val": ["none"]},
            {"src": f"(cond False (E {t1}))", "val": ["none"]},
            {"src": f"(do (defn fn{a} [] (E {t1})) (fn{a}))", "val": ["int", t1]},
            {"src": f"(do (defclass K{a} [] (setv attr {a})) (+ K{a}.attr (E {t1})))", "val": ["int", a + t1]},
            {"src": f"(setx sx{a} (if True (do (setv q{a} 1) (E {t1})) 2))", "val": ["int", t1]},
            {"src": f"(setx sy{a} (try (E {t1}) (except [ValueError] 2)))", "val": ["int", t1]},
            {"src": f"(when False (E {t1}))", "val": ["none"]},
        ])
    if r < 0.9:
        t, a = g.t(), rng.randrange(100)
        return {"src": f"(eval-and-compile (E {t}) {a})", "val": ["int", a], "ct": [t]}
    t = g.t()
    k = g.name("kw")
    locs = rng.choice(["(globals)", "(globals) (locals)"]) + " :module MOD"
    if rng.random() < 0.5:
        return {"src": f"(do (hy.eval '(E {t}) {locs}) :{k})", "val": ["kw", k], "nested": True}
    return {"src": f"(hy.eval '(do (E {t}) (+ 1 (E {t + 1000}))) {locs})", "val": ["int", t + 1001], "nested": True}


def generate(rng, tier):
    ndicts = rng.choice([1, 2, 2, 3])
    dicts = []
    for _ in range(ndicts):
        r = rng.random()
        # ismod: the dictionary is the namespace of the very module the code is compiled for
        dicts.append({"prior": rng.randrange(len(SENT)) if r < 0.5 else None, "bare": rng.random() < 0.12,
                      "ismod": rng.random() < 0.2})
    calls = []
    g = _G(rng)
    internal_run = rng.random() < (0.2 if tier == "thorough" else 0.12)
    n = rng.randrange(1, 7)
    for ci in range(n):
        shape = rng.choice(["g", "g", "gl", "gl", "l"])
        d1 = rng.randrange(ndicts)
        d2 = rng.randrange(ndicts)
        bare = dicts[d1]["bare"] or (shape == "gl" and dicts[d2]["bare"])
        mode = rng.choice(["single", "do", "do", "stream", "stream"])
        nf = 1 if mode == "single" else rng.randrange(1, 5)
        last = internal_run and ci == n - 1
        forms = [gen_form(g, allow_E=not bare, stream=(mode == "stream"), errors=not last) for _ in range(nf)]
        call = {"shape": shape, "d": [d1, d2], "mode": mode, "forms": forms, "plan": {}}
        if not bare and rng.random() < 0.4 and not last:
            # fault at some dynamic effect index (may exceed the number of effects: then nothing fires)
            call["plan"] = {str(rng.randrange(0, 6)): rng.choice(["A", "A", "B", "C", "D", "K"])}
        if last:
            r = rng.random()
            if r < 0.25:
                call["internal"] = {"mode": "head", "k": rng.randrange(0, 300)}
            elif r < 0.5:
                call["internal"] = {"mode": "tail", "k": rng.randrange(0, 300)}
            elif r < 0.65:
                call["internal"] = {"mode": "entry", "k": rng.randrange(0, 12)}
            else:
                call["internal"] = {"mode": "frac", "f": rng.random()}
            call["internal"]["exc"] = rng.choice(["fault", "fault", "kbd", "base", "memory"])
        calls.append(call)
    if not internal_run and rng.random() < 0.08:
        pos = rng.randrange(len(calls) + 1)
        sh = rng.choice(["g", "gl", "l"])
        dd = [rng.randrange(ndicts), rng.randrange(ndicts)]
        rk = rng.choice(["list", "dict"])
        want_v = ["list", [1, [2, 3]]] if rk == "list" else ["dictv", [1, [2, 3]]]
        calls[pos:pos] = [
            {"shape": sh, "d": dd, "mode": "raw", "raw": "bad", "plan": {}, "rawkind": rk,
             "forms": [{"src": "<python list with an unrepresentable leaf>", "val": ["none"], "err": "HyWrapperError"}]},
            {"shape": sh, "d": dd, "mode": "raw", "raw": "healed", "plan": {}, "rawkind": rk,
             "forms": [{"src": "<the same value, healed>", "val": want_v}]}]
    d = {"dicts": dicts, "calls": calls}
    if internal_run:
        d["isolate"] = True
    return d


# ------------------------------------------------------------------ execution


def _expected_value(val):
    hy = _S["hy"]
    k = val[0]
    if k == "int":
        return val[1]
    if k == "none":
        return None
    if k == "kw":
        return hy.models.Keyword(val[1])
    if k == "list":
        return val[1]
    if k == "dictv":
        return {"k": val[1]}
    raise ValueError(k)


_RAW = {}


def _model_for(call):
    hy = _S["hy"]
    if call["mode"] == "raw":
        # not a model but a plain Python value (hy.eval promotes it): the SAME list in both calls, first with an
        # unrepresentable leaf, then healed
        L = _RAW.setdefault("L", [1, [2, None]])
        L[1][1] = object() if call["raw"] == "bad" else 3
        if call.get("rawkind") == "dict":
            D = _RAW.setdefault("D", {"k": L})
            return D
        return L
    srcs = [f["src"] for f in call["forms"]]
    if call["mode"] == "single":
        return hy.read(srcs[0])
    if call["mode"] == "do":
        return hy.read("(do " + " ".join(srcs) + ")")
    return hy.read_many("\n".join(srcs) + "\n")


def _eligible_internal(code):
    return code.co_filename.startswith(_S["hydir"]) and code is not _S["entry_code"]


def _eligible_entry(code):
    import hy.compiler
    return code is hy.compiler.hy_eval.__code__


def execute(desc):
    setup_worker()
    from sim import kernel
    hy = _S["hy"]
    errs = _S["errors"]
    _RAW.clear()
    eff = Effects()
    _S["modn"] += 1
    mod = types.ModuleType("c39mod")
    mod.E = eff.E
    mod.MOD = mod
    dicts = []
    dmods = {}
    for spec in desc["dicts"]:
        d = {} if spec["bare"] else {"E": eff.E, "MOD": mod}
        if spec.get("ismod"):
            m2 = types.ModuleType("c39dictmod%d" % len(dicts))
            m2.__dict__.update(d)
            if not spec["bare"]:
                m2.MOD = m2
            d = m2.__dict__
            dmods[id(d)] = m2
        if spec["prior"] is not None:
            d["hy"] = SENT[spec["prior"]]
        dicts.append(d)
    events, viols, sigparts = [], [], []
    faults = {"runtime_effect_fault": 0, "compile_time_effect_fault": 0, "error_form_runtime": 0,
              "error_form_compile": 0, "error_form_reader": 0, "internal_crash_point": 0, "base_exception_fault": 0}
    probes = {"calls": 0, "binding_checks": 0, "value_checks": 0, "nested_eval_calls": 0, "prior_hy_dicts_touched": 0,
              "falsy_prior_hy_touched": 0, "calls_after_failure": 0}
    failed_before = False
    nontrivial = False

    KNOWN_SIG = "globals_is_compile_module_namespace_with_separate_locals"

    def binding_ok(ci, when):
        ok = True
        call_ = desc["calls"][ci]
        when0 = when
        for di, (spec, d) in enumerate(zip(desc["dicts"], dicts)):
            probes["binding_checks"] += 1
            has = "hy" in d
            if spec.get("ismod") and call_["shape"] == "gl" and call_["d"][0] == di and call_["d"][1] != di:
                # the namespace of the module the code is compiled for, passed as globals together with another
                # locals dict: compiling for a module binds module.hy, and only locals is restored (finding F10)
                when = KNOWN_SIG
                probes["module_namespace_as_globals_with_other_locals"] = probes.get("module_namespace_as_globals_with_other_locals", 0) + 1
            else:
                when = when0
            if spec["prior"] is None:
                if has:
                    viols.append({"clause": "binding_leaked", "sig": when,
                                  "detail": {"call": ci, "dict": di, "why": "`hy` entry appeared in a dict that had none",
                                             "value": repr(d.get("hy"))[:80]}})
                    ok = False
                    del d["hy"]
            else:
                if not has:
                    viols.append({"clause": "binding_lost", "sig": when,
                                  "detail": {"call": ci, "dict": di, "why": "prior `hy` entry removed",
                                             "prior": SENT_NAMES[spec["prior"]]}})
                    ok = False
                    d["hy"] = SENT[spec["prior"]]
                elif d["hy"] is not SENT[spec["prior"]]:
                    viols.append({"clause": "binding_replaced", "sig": when,
                                  "detail": {"call": ci, "dict": di, "why": "prior `hy` entry replaced",
                                             "prior": SENT_NAMES[spec["prior"]], "now": repr(d["hy"])[:80]}})
                    ok = False
                    d["hy"] = SENT[spec["prior"]]
        return ok

    for ci, call in enumerate(desc["calls"]):
        probes["calls"] += 1
        if failed_before:
            probes["calls_after_failure"] += 1
        eff.reset(call.get("plan"))
        mod.E = eff.E
        for d, spec in zip(dicts, desc["dicts"]):
            if not spec["bare"]:
                d["E"] = eff.E
        try:
            model = _model_for(call)
        except Exception as e:  # reader error before hy.eval is even called: not a call
            events.append([ci, "unreadable", type(e).__name__])
            continue
        d1, d2 = dicts[call["d"][0]], dicts[call["d"][1]]
        shape = call["shape"]
        for di in set(call["d"] if shape == "gl" else call["d"][:1]):
            if desc["dicts"][di]["prior"] is not None:
                probes["prior_hy_dicts_touched"] += 1
                if desc["dicts"][di]["prior"] in (1, 2, 3):
                    probes["falsy_prior_hy_touched"] += 1
        if any(f.get("nested") for f in call["forms"]):
            probes["nested_eval_calls"] += 1

        def do_call():
            m = _model_for(call)
            cm = dmods.get(id(d1), mod)   # compile for the module whose namespace d1 is, if it is one
            if shape == "g":
                return hy.eval(m, d1, module=cm)
            if shape == "gl":
                return hy.eval(m, d1, d2, module=cm)
            return hy.eval(m, None, d1, module=cm)

        internal = call.get("internal")
        tr = None
        if internal:
            # dry run counts the eligible events (a real, checked call), then the armed run
            elig = _eligible_entry if internal["mode"] == "entry" else _eligible_internal
            # two dry runs: the first warms every lazily initialised path this call touches
            # (so the count does not depend on what the process did before), the second counts
            for rep in range(2):
                dry = CrashTracer(elig)
                eff.reset(call.get("plan"))
                try:
                    with dry:
                        do_call()
                except BaseException as e:
                    events.append([ci, "dry-run-failed", type(e).__name__])
                binding_ok(ci, "after_dry_run")
            n = dry.count
            if internal["mode"] == "head":
                k = min(internal["k"], max(0, n - 1))
            elif internal["mode"] == "tail":
                k = max(0, n - 1 - internal["k"])
            elif internal["mode"] == "entry":
                k = internal["k"] % max(1, n)
            else:
                k = int(internal["f"] * n)
            eff.reset(call.get("plan"))
            tr = CrashTracer(elig, k=k, exc=internal["exc"])
        try:
            if tr:
                with tr:
                    got = ["ok", do_call()]
            else:
                got = ["ok", do_call()]
        except BaseException as e:
            got = ["exc", e]
        # ---- classification
        err_forms = [f for f in call["forms"] if f.get("err")]
        ct_tags = {t for f in call["forms"] for t in f.get("ct", [])}
        phase = "none"
        klass = ""
        if tr and tr.fired:
            faults["internal_crash_point"] += 1
            phase, klass = "internal", internal["exc"]
            events.append([ci, "internal", internal["mode"], tr.fired[0], tr.fired[1], got[0],
                           type(got[1]).__name__ if got[0] == "exc" else ""])
        elif eff.fired:
            c, tag, cls = eff.fired[0]
            compile_time = tag in ct_tags
            if cls in ("D", "K"):
                faults["base_exception_fault"] += 1
            faults["compile_time_effect_fault" if compile_time else "runtime_effect_fault"] += 1
            phase, klass = ("compile" if compile_time else "run"), cls
            exp_cls = CLASSES[cls]
            ok = got[0] == "exc" and (type(got[1]) is exp_cls or (
                compile_time and isinstance(got[1], (errs.HyLanguageError, errs.HyCompileError))))
            if not ok:
                viols.append({"clause": "escaping_exception", "sig": phase,
                              "detail": {"call": ci, "planned": cls, "tag": tag,
                                         "got": (type(got[1]).__name__ if got[0] == "exc" else "returned " + repr(got[1])[:80])}})
        elif err_forms and not internal:
            compile_errs = [f for f in err_forms if f["err"] in ("compile", "reader")]
            f = (compile_errs or err_forms)[0]
            kind = f["err"]
            phase, klass = "error_form", kind
            if kind == "compile":
                faults["error_form_compile"] += 1
                # (scoping errors such as "no binding for nonlocal" are plain SyntaxErrors)
                ok = got[0] == "exc" and isinstance(got[1], (errs.HyLanguageError, SyntaxError))
            elif kind == "reader":
                faults["error_form_reader"] += 1
                ok = got[0] == "exc" and isinstance(got[1], (_S["Lex"], _S["PEOI"]))
            else:
                faults["error_form_runtime"] += 1
                ok = got[0] == "exc" and type(got[1]).__name__ == kind
            if not ok:
                viols.append({"clause": "error_form_outcome", "sig": kind,
                              "detail": {"call": ci, "expected": kind,
                                         "got": (type(got[1]).__name__ if got[0] == "exc" else "returned " + repr(got[1])[:80])}})
        else:
            # fault-free: the value clause
            probes["value_checks"] += 1
            want = _expected_value(call["forms"][-1]["val"])
            if got[0] != "ok":
                viols.append({"clause": "spurious_exception", "sig": type(got[1]).__name__,
                              "detail": {"call": ci, "got": repr(got[1])[:300], "after_failure": failed_before,
                                         "src": [f["src"] for f in call["forms"]]}})
            elif not (got[1] == want and type(got[1]) is type(want)):
                viols.append({"clause": "value", "sig": call["mode"],
                              "detail": {"call": ci, "got": repr(got[1])[:100], "want": repr(want)[:100],
                                         "src": [f["src"] for f in call["forms"]]}})
        if not (tr and tr.fired):
            events.append([ci, shape, call["mode"], phase, klass, got[0],
                           type(got[1]).__name__ if got[0] == "exc" else repr(got[1])[:60], len(eff.log)])
        binding_ok(ci, "after_" + (phase if phase != "none" else "success"))
        if got[0] == "exc":
            failed_before = True
            nontrivial = True
        pri = [desc["dicts"][i]["prior"] for i in call["d"]]
        pos = ""
        if tr and tr.fired:
            pos = tr.fired[0]
        elif eff.fired:
            pos = str(eff.fired[0][0])
        sigparts.append((shape, str(pri), call["mode"], phase, klass, pos))
        if tr and tr.fired:
            break  # internal state may be torn: the armed call is the last one judged

    sigs = [kernel.digest(sigparts)] if nontrivial else []
    return {"events": events, "violations": viols[:4], "faults": faults, "probes": probes, "sigs": sigs,
            "steps": probes["calls"]}


# ------------------------------------------------------------------ shrinking


def shrink(desc):
    calls = desc["calls"]
    for i in range(len(calls)):
        if len(calls) > 1:
            yield dict(desc, calls=calls[:i] + calls[i + 1:])
    for i, c in enumerate(calls):
        forms = c["forms"]
        if len(forms) > 1 and c["mode"] != "single":
            for j in range(len(forms)):
                yield dict(desc, calls=calls[:i] + [dict(c, forms=forms[:j] + forms[j + 1:])] + calls[i + 1:])
        if c.get("plan"):
            yield dict(desc, calls=calls[:i] + [dict(c, plan={})] + calls[i + 1:])
        if c["shape"] != "g":
            yield dict(desc, calls=calls[:i] + [dict(c, shape="g")] + calls[i + 1:])
        if c["mode"] == "stream":
            yield dict(desc, calls=calls[:i] + [dict(c, mode="do")] + calls[i + 1:])
        if c.get("internal") and c["internal"].get("k"):
            yield dict(desc, calls=calls[:i] + [dict(c, internal=dict(c["internal"], k=c["internal"]["k"] // 2))] + calls[i + 1:])
        for j, f in enumerate(forms):
            if f["src"] != "1":
                simple = {"src": "1", "val": ["int", 1]}
                yield dict(desc, calls=calls[:i] + [dict(c, forms=forms[:j] + [simple] + forms[j + 1:])] + calls[i + 1:])
    for di, d in enumerate(desc["dicts"]):
        if d["prior"] not in (None, 0):
            yield dict(desc, dicts=desc["dicts"][:di] + [dict(d, prior=0)] + desc["dicts"][di + 1:])
