"""C35 -- macro lookup and require follow the documented namespaces.

A run is a history of ops, each one hy.eval of a generated form in ONE persistent
module M, with two macro libraries available for `require` (with and without
_hy_export_macros, with _private macros, with a macro named like a core macro).
Ops: module-level defmacro (every definition expands to a unique tag), require in
every shape, scope forms (defn / fn / defclass / lfor, nested two deep, plus `for`
which is NOT a scope) containing local defmacro / require / pragma followed by
probes, probes of every known name at module level afterwards, hy.eval with a
:macros dictionary, (pragma :warn-on-core-shadow) at module or local level
followed by definitions that shadow when / cond / while, and FAILING ops: require
of a missing module or of a missing first name, a local macro whose body raises
while expanding.

Oracle: a reference namespace model (dict for M, stack of dicts per scope, the
core set, export rules) predicts the tag every probe resolves to, the exact
_hy_macros key set of M after every op and the number of core-shadow
RuntimeWarnings of every op; after a failing op the model is unchanged and the
following ops must still agree.
"""
import contextlib
import io
import sys
import types
import warnings

PROPERTY = "C35"
LEVEL = "exploration"
ISOLATE = False
RULE = ("one run = a history of 6-16 hy.eval ops on one persistent module; non-trivial = a history in which a name is defined "
        "in at least two namespaces (so precedence decides) or an op failed and later ops were checked; distinct = distinct "
        "sequences of (op kind, scope kinds, require shapes, outcome)")
REAL = ["hy.eval, compile_macro_def, compile_require, hy.macros.require / macroexpand, HyASTCompiler.local_state, pragma, "
        "core macro table in builtins"]
STUB = ["macro libraries are in-memory modules registered in sys.modules (their macros are defined by evaluating real "
        "defmacro forms in them)", "reference namespace model used as the oracle"]
ASSUMPTIONS = ["a failing require names the missing macro first, so nothing is transferred before the failure",
               "core macros that the generated forms themselves use (do, defn, setv, ...) are never shadowed; when / cond / while are"]

_S = {}
CORE_SHADOW = ["when", "cond", "while"]
USER = ["u1", "u-two", "u3", "_upriv"]
LIBS = [
    {"name": "c35liba", "macros": ["a1", "a-two", "_apriv", "when"], "exports": None},
    {"name": "c35libb", "macros": ["b1", "b-two", "_bpriv", "u1"], "exports": ["b1", "_bpriv", "u1"]},
    {"name": "c35libc", "macros": ["c1", "u3"], "exports": [], "via": "export"},
    {"name": "c35libd", "macros": ["d1", "d-two", "_dpriv"], "exports": ["d-two", "_dpriv"], "via": "export"},
]


def mangle(n):
    return n.replace("-", "_")


def setup_worker():
    if _S:
        return
    import builtins
    import hy
    import hy.errors
    _S["hy"] = hy
    _S["errors"] = hy.errors
    _S["core"] = set(getattr(builtins, "_hy_macros", {}).keys())
    _S["n"] = 0
    for lib in LIBS:
        m = types.ModuleType(lib["name"])
        sys.modules[lib["name"]] = m
        src = "\n".join(f'(defmacro {n} [] "{lib["name"]}:{n}")' for n in lib["macros"])
        if lib["exports"] is not None:
            if lib.get("via") == "export":
                # the documented way: the `export` macro
                src += "\n(export :macros [" + " ".join(lib["exports"]) + "])"
            else:
                src += "\n(setv _hy_export_macros [" + " ".join('"%s"' % mangle(n) for n in lib["exports"]) + "])"
        with warnings.catch_warnings():
            warnings.simplefilter("ignore")
            hy.eval(hy.read_many(src), module=m)
    assert all(mangle(n) in _S["core"] for n in CORE_SHADOW)


def plan(tier):
    if tier == "thorough":
        return {"runs": 20000, "budget_s": 1500, "chunk": 30, "recheck": 8, "shrink_s": 150}
    return {"runs": 1200, "budget_s": 200, "chunk": 10, "recheck": 6, "shrink_s": 60}


# ------------------------------------------------------------------ generation


class G:
    def __init__(self, rng):
        self.rng = rng
        self.t = 0

    def tag(self):
        self.t += 1
        return "T%d" % self.t

    def name(self):
        r = self.rng.random()
        if r < 0.55:
            return self.rng.choice(USER)
        if r < 0.8:
            return self.rng.choice(CORE_SHADOW)
        return self.rng.choice(["a1", "b1", "zz", "L.a1", "c35liba.a1"])

    def defmacro(self):
        n = self.name()
        if "." in n:
            n = self.rng.choice(USER)
        return ["defmacro", n, self.tag()]

    def require(self, fail=False):
        rng = self.rng
        li = rng.randrange(len(LIBS))
        if fail:
            return rng.choice([["require", "c35missing", "bare"], ["require", LIBS[li]["name"], "list", [["nonexistent", None], [LIBS[li]["macros"][0], None]]]])
        shape = rng.choice(["bare", "as", "list", "list", "star"])
        r = ["require", LIBS[li]["name"], shape]
        if shape == "as":
            r.append(rng.choice(["L", "M-x"]))
        if shape == "list":
            pool = LIBS[li]["macros"]
            chosen = rng.sample(pool, rng.randint(1, len(pool)))
            r.append([[n, rng.choice([None, None, "zz", "u3", "cond", "al-" + n.strip("_")])] for n in chosen])
        return r

    def probes(self):
        rng = self.rng
        names = rng.sample(USER + CORE_SHADOW + ["a1", "a-two", "b1", "zz", "L.a1", "M-x.b1", "c35liba.a1", "c35libb.b1", "_apriv", "d1", "d-two", "_dpriv", "L.d-two", "c35libd.d1", "c35libd.d-two",
                                                 "al-a1", "al-b1", "c35liba._apriv", "c35libb.u1", "c1", "L.c1", "c35libc.c1", "al-c1"], rng.randint(2, 6))
        return ["probe", names]

    def stmts(self, depth, n=None):
        rng = self.rng
        out = []
        for _ in range(n or rng.randint(1, 4)):
            r = rng.random()
            if r < 0.3:
                out.append(self.defmacro())
            elif r < 0.45:
                out.append(self.require())
            elif r < 0.52:
                out.append(["pragma", rng.random() < 0.7 and False or rng.random() < 0.5])
            elif r < 0.75 or depth <= 0:
                out.append(self.probes())
            else:
                sc = ["scope", rng.choice(["defn", "fn", "defclass", "lfor", "for", "let", "let"]), self.stmts(depth - 1) + [self.probes()]]
                if sc[1] == "defn" and rng.random() < 0.4:
                    # a return annotation that calls a name: it belongs to the ENCLOSING scope, not to the function body
                    sc.append(rng.choice(USER + ["a1", "zz"]))
                out.append(sc)
        return out


def chain(g):
    """Nested scopes (2-4 deep) most of which define the SAME name; probes in every scope, before and after the inner
    scope: innermost-to-outermost lookup and the end of each scope are decided here."""
    rng = g.rng
    n = rng.choice(USER + ["when"])
    kinds = ["defn", "fn", "defclass", "lfor"]

    def build(d):
        body = []
        if rng.random() < 0.7:
            body.append(rng.choice([["defmacro", n, g.tag()], ["defmacro", n, g.tag()],
                                    ["require", "c35liba", "list", [["a1", n]]]]))
        body.append(["probe", [n]])
        if d > 1:
            body.append(["scope", rng.choice(kinds), build(d - 1)])
            body.append(["probe", [n]])
        return body

    return [["scope", rng.choice(kinds), build(rng.randint(2, 4))], ["probe", [n]]]


def generate(rng, tier):
    g = G(rng)
    ops = []
    for _ in range(rng.randrange(6, 17)):
        r = rng.random()
        if r < 0.08:
            ops.append({"op": "eval", "stmts": chain(g)})
        elif r < 0.2:
            ops.append({"op": "eval", "stmts": [g.defmacro()]})
        elif r < 0.35:
            ops.append({"op": "eval", "stmts": [g.require()]})
        elif r < 0.55:
            ops.append({"op": "eval", "stmts": [g.probes()]})
        elif r < 0.8:
            # up to four scopes deep, so that "innermost to outermost" is decided among several enclosing local scopes
            ops.append({"op": "eval", "stmts": g.stmts(rng.choice([2, 2, 3, 4]))})
        elif r < 0.88:
            ex = {mangle(rng.choice(USER + CORE_SHADOW + ["a1"])): g.tag() for _ in range(rng.randint(1, 2))}
            ops.append({"op": "eval", "stmts": g.stmts(1) + [g.probes()], "extra": ex})
        elif r < 0.92:
            ops.append({"op": "eval", "stmts": [g.require(fail=True)], "fails": "require"})
        elif r < 0.95:
            # the same namespaces seen through hy.macroexpand-1 (module macros, then an explicit `macros` dict, then none
            # again: nothing may be remembered from one call to the next)
            names = rng.sample(USER + ["a1", "b1", "zz", "c1", "d1"], rng.randint(2, 4))
            ex = {mangle(rng.choice(USER + ["a1", "zz"])): g.tag() for _ in range(rng.randint(1, 2))}
            ops.append({"op": "mx", "names": names, "extra": ex if rng.random() < 0.7 else {}})
        else:
            # a local macro whose body raises while expanding; the defmacro before it in the same op must not survive
            ops.append({"op": "eval", "stmts": [["scope", rng.choice(["defn", "defclass", "lfor"]),
                                                  [g.defmacro(), ["badmacro"], g.probes()]]], "fails": "expand"})
    ops.append({"op": "eval", "stmts": [["probe", USER + CORE_SHADOW + ["a1", "b1", "zz", "L.a1", "c35liba.a1", "c1"]]]})
    fe = "repl" if rng.random() < 0.3 else "eval"
    if fe == "repl":
        for o in ops:
            if o["op"] != "mx":
                o.pop("extra", None)   # the :macros argument belongs to hy.eval only
    return {"ops": ops, "fe": fe}


# ------------------------------------------------------------------ rendering


def render(stmts, uid, depth=0):
    out = []
    for i, s in enumerate(stmts):
        k = s[0]
        if k == "defmacro":
            out.append(f'(defmacro {s[1]} [] "{s[2]}")')
        elif k == "badmacro":
            out.append('(defmacro bad-one [] (raise (ValueError "boom")))')
            out.append("(bad-one)")
        elif k == "require":
            lib, shape = s[1], s[2]
            if shape == "bare":
                out.append(f"(require {lib})")
            elif shape == "as":
                out.append(f"(require {lib} :as {s[3]})")
            elif shape == "star":
                out.append(f"(require {lib} *)")
            else:
                out.append(f"(require {lib} [" + " ".join(n if a is None else f"{n} :as {a}" for n, a in s[3]) + "])")
        elif k == "pragma":
            out.append(f"(pragma :warn-on-core-shadow {'True' if s[1] else 'False'})")
        elif k == "probe":
            for n in s[1]:
                # zero-argument call of the name: a macro gives its tag, `cond` (core) gives None, anything else is not
                # a macro and becomes a call of an undefined function
                out.append(f'(.append OUT (try ({n}) (except [e [NameError AttributeError]] "UNDEF")))')
        elif k == "scope":
            kind, body = s[1], render(s[2], f"{uid}_{i}", depth + 1)
            fn = f"sc{uid}_{i}"
            if kind == "defn":
                if len(s) > 3:
                    ann = f'#^ ({s[3]}) '
                    out.append(f"(defn {ann}{fn} [] " + " ".join(body) + f') (.append OUT (get {fn}.__annotations__ "return")) ({fn})')
                else:
                    out.append(f"(defn {fn} [] " + " ".join(body) + f") ({fn})")
            elif kind == "fn":
                out.append("((fn [] " + " ".join(body) + "))")
            elif kind == "defclass":
                out.append(f"(defclass C{fn} [] " + " ".join(body) + ")")
            elif kind == "lfor":
                out.append("(lfor _ [1] (do " + " ".join(body) + " None))")
            elif kind == "let":
                # a variable scope, but no macro scope: definitions inside belong to the enclosing macro namespace
                out.append(f"(let [lv{uid}x{i} 1] " + " ".join(body) + ")")
            else:
                out.append("(for [_ [1]] " + " ".join(body) + ")")
    return out


# ------------------------------------------------------------------ reference namespace model


class Model:
    def __init__(self):
        self.module = {}          # mangled name -> tag
        self.core = _S["core"]
        self.base_options = None  # set to a dict when one compiler serves the whole history (REPL front end)

    def exported(self, lib):
        if lib["exports"] is not None:
            return [n for n in lib["macros"] if n in lib["exports"]]
        return [n for n in lib["macros"] if not n.startswith("_")]

    def required(self, s):
        """[(new name (unmangled, possibly dotted), tag)] brought in by a require statement."""
        libname, shape = s[1], s[2]
        lib = [l for l in LIBS if l["name"] == libname]
        if not lib:
            raise LookupError("missing module")
        lib = lib[0]
        if shape == "bare":
            return [(f"{libname}.{n}", f"{libname}:{n}") for n in self.exported(lib)]
        if shape == "as":
            return [(f"{s[3]}.{n}", f"{libname}:{n}") for n in self.exported(lib)]
        if shape == "star":
            return [(n, f"{libname}:{n}") for n in self.exported(lib)]
        out = []
        for n, a in s[3]:
            if n not in lib["macros"]:
                raise LookupError("missing name")
            out.append((a or n, f"{libname}:{n}"))
        return out

    def run(self, stmts, extra):
        """Returns (OUT list, warnings count, new module table) or raises."""
        module = dict(self.module)
        out = []
        warn = [0]
        frames = []      # local macro dicts, innermost last
        base = dict(self.base_options) if self.base_options is not None else {}
        options = [base]   # warn option per local state (index 0 = module level of this compiler)

        def warn_on(name):
            if mangle(name) in self.core:
                opt = True
                for o in reversed(options):
                    if "w" in o:
                        opt = o["w"]
                        break
                if opt:
                    warn[0] += 1

        def walk(stmts):
            for s in stmts:
                k = s[0]
                if k == "defmacro":
                    warn_on(s[1])
                    (frames[-1] if frames else module)[mangle(s[1])] = s[2]
                elif k == "badmacro":
                    raise RuntimeError("expand")
                elif k == "require":
                    for newname, tag in self.required(s):
                        warn_on(newname)
                        (frames[-1] if frames else module)[mangle(newname)] = tag
                elif k == "pragma":
                    options[-1]["w"] = s[1]
                elif k == "probe":
                    for n in s[1]:
                        m = mangle(n)
                        if m in extra:
                            out.append(extra[m])
                            continue
                        for f in reversed(frames):
                            if m in f:
                                out.append(f[m])
                                break
                        else:
                            if m in module:
                                out.append(module[m])
                            elif m == "cond":
                                out.append(None)
                            elif m in ("when", "while"):
                                raise AssertionError("generator: zero-argument core call")
                            else:
                                out.append("UNDEF")
                elif k == "scope":
                    if len(s) > 3:
                        # the annotation is looked up where the defn stands
                        m = mangle(s[3])
                        if m in extra:
                            out.append(extra[m])
                        else:
                            for f in reversed(frames):
                                if m in f:
                                    out.append(f[m])
                                    break
                            else:
                                out.append(module.get(m, "UNDEF"))
                    if s[1] in ("for", "let"):
                        walk(s[2])
                    else:
                        frames.append({})
                        options.append({})
                        try:
                            walk(s[2])
                        finally:
                            frames.pop()
                            options.pop()

        walk(stmts)
        self._new_base = base
        return out, warn[0], module


def sanitize(stmts, model, extra, frames=None, module=None):
    """Drop probes of unshadowed `when` / `unless` (their zero-argument core call is a syntax error, which would abort the
    whole op): done by a dry walk of the model."""
    frames = [] if frames is None else frames
    module = dict(model.module) if module is None else module
    out = []
    for s in stmts:
        k = s[0]
        if k == "defmacro":
            (frames[-1] if frames else module)[mangle(s[1])] = s[2]
            out.append(s)
        elif k == "require":
            try:
                for newname, tag in model.required(s):
                    (frames[-1] if frames else module)[mangle(newname)] = tag
            except LookupError:
                pass
            out.append(s)
        elif k == "probe":
            keep = []
            for n in s[1]:
                m = mangle(n)
                visible = m in extra or any(m in f for f in frames) or m in module
                if m in ("when", "while") and not visible:
                    continue
                keep.append(n)
            out.append(["probe", keep])
        elif k == "scope":
            if s[1] in ("for", "let"):
                out.append(["scope", s[1], sanitize(s[2], model, extra, frames, module)])
            else:
                # the annotation is kept only when the name is a macro where the defn stands (a plain call of an
                # undefined function in a signature would fail at definition time)
                keep_ann = []
                if len(s) > 3:
                    m_ = mangle(s[3])
                    if m_ in extra or any(m_ in f for f in frames) or m_ in module:
                        keep_ann = [s[3]]
                frames.append({})
                out.append(["scope", s[1], sanitize(s[2], model, extra, frames, module)] + keep_ann)
                frames.pop()
        else:
            out.append(s)
    return out


# ------------------------------------------------------------------ execution


def execute(desc):
    setup_worker()
    from sim import kernel
    hy = _S["hy"]
    _S["n"] += 1
    name = "c35mod_%d" % _S["n"]
    M = types.ModuleType(name)
    sys.modules[name] = M
    M.OUT = []
    model = Model()
    repl = None
    sink = io.StringIO()
    if desc.get("fe") == "repl":
        with contextlib.redirect_stdout(sink), contextlib.redirect_stderr(sink):
            repl = hy.REPL(locals={"__name__": name})
        M = repl.module
        M.OUT = []
        model.base_options = {}
    events, viols = [], []
    faults = {"failing_require_missing_module": 0, "failing_require_missing_name": 0, "local_macro_raises_while_expanding": 0}
    probes = {"ops": 0, "probes": 0, "probes_decided_by_precedence": 0, "core_shadow_warnings": 0, "ops_after_failure": 0,
              "scopes": 0}
    failed_before = False
    nontrivial = False
    seq = []
    try:
        for oi, op in enumerate(desc["ops"]):
            probes["ops"] += 1
            if failed_before:
                probes["ops_after_failure"] += 1
            extra_tags = op.get("extra", {})
            if op["op"] == "mx":
                Mo = hy.models
                got_mx, want_mx = [], []
                fns = {k: (lambda t: (lambda: Mo.String(t)))(t) for k, t in extra_tags.items()}
                for n in op["names"]:
                    form = Mo.Expression([Mo.Symbol(n)])
                    for macros_arg in ((fns or None), None):
                        try:
                            r_ = hy.macroexpand_1(form, M, macros_arg)
                            got_mx.append(str(r_) if isinstance(r_, Mo.String) else "UNCHANGED" if r_ == form else repr(r_)[:40])
                        except BaseException as e:
                            got_mx.append("EXC:" + type(e).__name__)
                        m_ = mangle(n)
                        if macros_arg and m_ in extra_tags:
                            want_mx.append(extra_tags[m_])
                        elif m_ in model.module:
                            want_mx.append(model.module[m_])
                        else:
                            want_mx.append("UNCHANGED")
                probes["macroexpand_probes"] = probes.get("macroexpand_probes", 0) + len(want_mx)
                if got_mx != want_mx:
                    viols.append({"clause": "resolution", "sig": "macroexpand-1",
                                  "detail": {"op": oi, "names": op["names"], "extra": extra_tags, "got": got_mx, "expected": want_mx,
                                             "module_macros": model.module}})
                events.append([oi, ["mx"], "ok", len(got_mx), 0])
                seq.append((("mx",), "ok"))
                continue
            stmts = sanitize(op["stmts"], model, extra_tags)
            src = "\n".join(render(stmts, oi))
            del M.OUT[:]
            try:
                want_out, want_warn, new_module = model.run(stmts, extra_tags)
                want = ("ok",)
            except LookupError:
                want = ("exc", "HyRequireError")
            except RuntimeError:
                want = ("exc", "HyMacroExpansionError")
            extra = None
            if extra_tags:
                extra = {k: (lambda t: (lambda: hy.models.String(t)))(t) for k, t in extra_tags.items()}
            with warnings.catch_warnings(record=True) as wlist:
                warnings.simplefilter("always")
                if repl is not None:
                    # one long-lived compiler: the REPL's
                    prev_e = repl.locals.get(hy.mangle("*e"))
                    with contextlib.redirect_stdout(sink), contextlib.redirect_stderr(sink):
                        more = repl.runsource(src + "\n")
                    cur_e = repl.locals.get(hy.mangle("*e"))
                    got = ("ok",) if cur_e is prev_e and not more else ("exc", type(cur_e).__name__, str(cur_e)[:200])
                else:
                    try:
                        hy.eval(hy.read_many(src), module=M, macros=extra)
                        got = ("ok",)
                    except BaseException as e:
                        got = ("exc", type(e).__name__, str(e)[:200])
            got_warn = sum(1 for w in wlist if issubclass(w.category, RuntimeWarning) and "shadow the core macro" in str(w.message))
            kinds = _kinds(stmts)
            probes["scopes"] += kinds.count("scope")
            if want[0] == "ok":
                if got[0] != "ok":
                    viols.append({"clause": "resolution", "sig": "unexpected_error" + ("_after_failure" if failed_before else ""),
                                  "detail": {"op": oi, "error": got[1:], "src": src[:1200], "module_macros": sorted(model.module)}})
                else:
                    probes["probes"] += len(want_out)
                    if list(M.OUT) != want_out:
                        viols.append({"clause": "resolution", "sig": _first_scope(stmts) + ("_after_failure" if failed_before else ""),
                                      "detail": {"op": oi, "got": list(M.OUT), "expected": want_out, "src": src[:1500],
                                                 "module_macros": model.module, "extra": extra_tags}})
                    if got_warn != want_warn:
                        viols.append({"clause": "core_shadow_warning", "sig": "too_many" if got_warn > want_warn else "missing",
                                      "detail": {"op": oi, "got": got_warn, "expected": want_warn, "src": src[:1200]}})
                    probes["core_shadow_warnings"] += got_warn
                    model.module = new_module
                    if model.base_options is not None:
                        model.base_options = model._new_base
                    if len(set(want_out) - {"UNDEF", None}) >= 1 and _has_shadowing(stmts, model, extra_tags):
                        probes["probes_decided_by_precedence"] += 1
                        nontrivial = True
            else:
                faults[{"require": "failing_require_missing_module" if "c35missing" in src else "failing_require_missing_name",
                        "expand": "local_macro_raises_while_expanding"}[op.get("fails", "require")]] += 1
                if got[0] != "exc" or got[1] != want[1]:
                    viols.append({"clause": "failing_op", "sig": want[1],
                                  "detail": {"op": oi, "got": got, "expected": want[1], "src": src[:800]}})
                failed_before = True
                nontrivial = True
            have = sorted(getattr(M, "_hy_macros", {}).keys())
            if have != sorted(model.module):
                viols.append({"clause": "module_macro_table", "sig": ("after_failed_op" if want[0] != "ok" else "after_op"),
                              "detail": {"op": oi, "missing": sorted(set(model.module) - set(have)),
                                         "unexpected": sorted(set(have) - set(model.module)), "src": src[:1200]}})
                # resynchronise so one divergence is reported once
                model.module = {k: model.module.get(k, "<unknown>") for k in have}
            events.append([oi, kinds, got[0], got[1] if got[0] == "exc" else len(M.OUT), got_warn])
            seq.append((tuple(kinds), got[0] if got[0] == "ok" else got[1]))
    finally:
        sys.modules.pop(name, None)
    uniq = {}
    for v in viols:
        uniq.setdefault((v["clause"], v["sig"]), v)
    return {"events": events, "violations": list(uniq.values())[:5], "faults": faults, "probes": probes,
            "sigs": [kernel.digest(seq)] if nontrivial else [], "steps": probes["ops"]}


def _kinds(stmts):
    out = []
    for s in stmts:
        if s[0] == "scope":
            out.append("scope")
            out.append(s[1])
            out += _kinds(s[2])
        elif s[0] == "require":
            out.append("require-" + s[2])
        else:
            out.append(s[0])
    return out


def _first_scope(stmts):
    for s in stmts:
        if s[0] == "scope":
            return s[1]
    return "module"


def _has_shadowing(stmts, model, extra):
    names = set()
    dup = [False]

    def walk(st, depth):
        for s in st:
            if s[0] == "defmacro":
                m = mangle(s[1])
                if m in names or m in model.module or m in _S["core"] or m in extra:
                    dup[0] = True
                names.add(m)
            elif s[0] == "scope":
                walk(s[2], depth + 1)

    walk(stmts, 0)
    return dup[0] or bool(extra)


# ------------------------------------------------------------------ shrinking


def _simpler(stmts):
    for i in range(len(stmts)):
        yield stmts[:i] + stmts[i + 1:]
    for i, s in enumerate(stmts):
        if s[0] == "scope":
            yield stmts[:i] + s[2] + stmts[i + 1:]
            for b in _simpler(s[2]):
                yield stmts[:i] + [["scope", s[1], b] + list(s[3:])] + stmts[i + 1:]
        elif s[0] == "probe" and len(s[1]) > 1:
            for j in range(len(s[1])):
                yield stmts[:i] + [["probe", s[1][:j] + s[1][j + 1:]]] + stmts[i + 1:]
        elif s[0] == "require" and s[2] == "list" and len(s[3]) > 1:
            for j in range(len(s[3])):
                yield stmts[:i] + [s[:3] + [s[3][:j] + s[3][j + 1:]]] + stmts[i + 1:]


def shrink(desc):
    ops = desc["ops"]
    n = len(ops)
    size = n // 2
    while size >= 1:
        for i in range(0, n, size):
            yield dict(desc, ops=ops[:i] + ops[i + size:])
        size //= 2
    if desc.get("fe") == "repl":
        yield dict(desc, fe="eval")
    for i, op in enumerate(ops):
        if op["op"] == "mx":
            for j in range(len(op["names"])):
                if len(op["names"]) > 1:
                    yield dict(desc, ops=ops[:i] + [dict(op, names=op["names"][:j] + op["names"][j + 1:])] + ops[i + 1:])
            continue
        if op.get("extra"):
            yield dict(desc, ops=ops[:i] + [{k: v for k, v in op.items() if k != "extra"}] + ops[i + 1:])
        for st in _simpler(op["stmts"]):
            if st:
                yield dict(desc, ops=ops[:i] + [dict(op, stmts=st)] + ops[i + 1:])
