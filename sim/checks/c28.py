"""C28 -- hy.repr output doesn't depend on earlier failed or nested calls.

A run is a history of hy.repr calls.  Faults: printers that raise by plan (at
entry / between children / at exit, ordinary and BaseException classes),
exceptions injected at the k-th line event of any printer frame (hy's built-in
printers included, never hy-repr's own frame), RecursionError from a very deep
list.  Oracles: (1) every call on the system under test -- whose module state
carries the whole history -- must give exactly what the same call gives on a
pristine instance of the hy_repr module (fresh globals, same code), and, for a
sample, in a forked pristine process; (2) fault-free calls must equal an
independent reference printer; (3) fixed probes after the history.
"""
import os
import signal
import sys
import types

from sim.engines.crashpoints import CrashTracer, InjectedFault, InjectedBaseFault, StepCapExceeded

PROPERTY = "C28"
LEVEL = "exploration"
ISOLATE = False
RULE = ("one run = a history of 3-12 hy.repr calls on generated values (atoms, models, containers, cycles, registered "
        "Box printers that recurse / re-enter / catch / raise by plan) with crash points injected at the k-th line event "
        "inside printer frames; in the thorough tier marked calls are repeated for every k. Non-trivial = a history in "
        "which at least one call failed (fault fired) and at least one later call was checked; distinct = distinct "
        "sequences of (value shape, outcome class) over the history")
REAL = ["hy.repr / hy.repr-register (hy/core/hy_repr.hy) and every built-in printer, as compiled from the working tree",
        "hy.models", "CPython exception propagation and try/finally"]
STUB = ["user printers (programmable Box printers owned by the simulator)",
        "the fault source (sys.settrace raising at the k-th line event of a printer frame)",
        "pristine interpreter = fresh instance of the hy_repr module executed from the same code object "
        "(validated against a really forked pristine process for a sample of histories)"]
ASSUMPTIONS = ["asynchronous exceptions between hy-repr's own bookkeeping lines are not injected",
               "set literals have at most one element (iteration order of larger sets is not the property's concern)"]

_S = {}
STEP_CAP = 200000
BOX_CALL_CAP = 20000  # largest observed on the unchanged tree: < 100
WATCHDOG_CPU_S = 20


def _watchdog(signum, frame):
    raise StepCapExceeded("watchdog: %d s of CPU time in one hy.repr call" % WATCHDOG_CPU_S)


class _LeaveWith(Exception):
    pass


class PlanError(Exception):
    pass


class PlanBaseError(BaseException):
    pass


class _Ctx:
    repr = None  # the hy-repr function under which Box printers recurse
    register = None
    kept = None  # objects of earlier calls (system under test) / their specs (pristine instance)
    box_calls = 0  # Box printer invocations in the current top-level call
    kept_is_spec = False  # which of the two CTX.kept holds (a kept *object* may itself be a Python dict)


CTX = _Ctx()


def _make_boxes(hy):
    class Box0:
        cls = 0

    class Box1:
        cls = 1

    class Box2(hy.models.Object):
        cls = 2

    return [Box0, Box1, Box2]


PLACEHOLDER = {0: None, 1: "<BOX>", 2: None}


def _box_printer(x):
    p = x.plan
    parts = []
    # deterministic step cap that does not depend on tracing (CPython un-sets the trace function when calling it
    # fails, e.g. at the recursion limit): exponential blow-up needs a catching printer, i.e. this function
    CTX.box_calls += 1
    if CTX.box_calls > BOX_CALL_CAP:
        raise StepCapExceeded("step cap: %d Box printer calls in one hy.repr call" % BOX_CALL_CAP)
    if p.get("register"):
        # a printer that (re-)registers a helper printer on first use
        CTX.register(_S["boxes"][0], _box_printer, PLACEHOLDER[0])
    if p.get("reenter") is not None:
        parts.append("<" + CTX.repr(build(p["reenter"])) + ">")
    ra = p.get("raise_at")
    exc = PlanBaseError if p.get("exc") == "planbase" else PlanError
    if ra == 0:
        raise exc("planned at entry")
    for j, kid in enumerate(x.kids):
        if p.get("catch"):
            try:
                parts.append(CTX.repr(kid))
            except Exception as e:
                parts.append("<ERR " + type(e).__name__ + ">")
        else:
            parts.append(CTX.repr(kid))
        if ra == j + 1:
            raise exc("planned after kid %d" % j)
    if ra == -1:
        raise exc("planned at exit")
    return "(Box%d%s)" % (x.cls, "".join(" " + s for s in parts))


def _fresh_instance():
    m = types.ModuleType("hy.core.hy_repr")
    m.__file__ = _S["path"]
    exec(_S["code"], m.__dict__)
    for B in _S["boxes"]:
        m.hy_repr_register(B, _box_printer, PLACEHOLDER[B.cls])
    return m


def setup_worker():
    if _S:
        return
    import hy
    import hy.models
    import hy.core.hy_repr as R
    from hy.importer import HyLoader
    _S["hy"] = hy
    _S["R"] = R
    _S["path"] = R.__file__
    _S["code"] = HyLoader("hy.core.hy_repr", R.__file__).get_code("hy.core.hy_repr")
    _S["boxes"] = _make_boxes(hy)
    for B in _S["boxes"]:
        hy.repr_register(B, _box_printer, PLACEHOLDER[B.cls])
    _S["sut_repr"] = hy.repr
    sys.setrecursionlimit(1000)


def plan(tier):
    if tier == "thorough":
        return {"runs": 40000, "budget_s": 1500, "chunk": 100, "recheck": 16, "shrink_s": 120}
    return {"runs": 2500, "budget_s": 120, "chunk": 40, "recheck": 8, "shrink_s": 45}


# ------------------------------------------------------------------ values

SYMS = ["foo", "bar", "x", "a-b", "+", "None", "setv", "quote-me", "é",
        # long atoms (a size threshold, an interning or memo boundary): the same long value appears in many calls of a
        # history, inside models and inside plain containers
        "a-very-long-symbol-name-with-more-than-thirty-two-characters", "long?symbol!with*punctuation+and-more-than-32-chars"]
STRS = ["", "a", "hello world", 'say "hi"', "it's", "back\\slash", "tab\there", "{brace}", "ünï",
        "a long string with more than thirty-two characters in it", "x" * 40, 'long "quoted" string \\ with escapes and ünïcödé ' * 2]
MODELS = {"sym", "mint", "mstr", "mfloat", "mlist", "mtuple", "mset", "mexpr", "mdict"}


def is_model(spec):
    return spec["t"] in MODELS or (spec["t"] == "box" and spec["cls"] == 2)


def gen_atom(rng):
    r = rng.random()
    if r < 0.2:
        return {"t": "int", "v": rng.choice([0, 1, 2, 7, -3, 256, 257, 10**12])}
    if r < 0.32:
        return {"t": "str", "v": rng.choice(STRS)}
    if r < 0.38:
        return {"t": "float", "v": rng.choice([0.0, 1.5, -2.25, 1e100, float("inf")])}
    if r < 0.43:
        return {"t": "bool", "v": rng.random() < 0.5}
    if r < 0.47:
        return {"t": "none"}
    if r < 0.5:
        return {"t": "bytes", "v": rng.choice(["", "ab", "q\"q", "bytes value that is longer than thirty-two bytes ..."])}
    if r < 0.58:
        return {"t": "kw", "v": rng.choice(["k", "key-word", "kw2"])}
    if r < 0.75:
        return {"t": "sym", "v": rng.choice(SYMS)}
    if r < 0.85:
        return {"t": "mint", "v": rng.choice([0, 1, 42, -5])}
    if r < 0.94:
        return {"t": "mstr", "v": rng.choice(STRS)}
    return {"t": "mfloat", "v": rng.choice([0.5, -1.0, 3.25])}


def gen_hashable(rng):
    r = rng.random()
    if r < 0.4:
        return {"t": "int", "v": rng.choice([1, 2, 3, 99])}
    if r < 0.7:
        return {"t": "str", "v": rng.choice(STRS)}
    if r < 0.85:
        return {"t": "kw", "v": rng.choice(["k", "key-word"])}
    return {"t": "sym", "v": rng.choice(SYMS)}


EXOTIC = ["range", "range3", "slice", "frac", "bytearray", "frozenset", "deque", "odict", "counter", "ddict", "chainmap",
          "dkeys", "dvalues", "ditems", "date", "datetime", "time", "namedtuple", "pattern", "match", "complex", "mcomplex",
          "mfloatnan", "mfloatinf", "fstring", "bstring", "mbytes", "nan", "ellipsis", "type", "fn"]


def gen_value(rng, depth, nmut, boxes=True):
    r = rng.random()
    if depth > 0 and r < 0.12:
        k = rng.choice(EXOTIC)
        kids = [gen_value(rng, depth - 1, nmut, boxes=False) for _ in range(rng.randint(0, 2))]
        return {"t": "exotic", "k": k, "kids": kids, "n": rng.randrange(1, 9)}
    if depth <= 0 or r < 0.35:
        if nmut and rng.random() < 0.25:
            return {"t": "ref", "up": rng.randrange(1, nmut + 1)}
        return gen_atom(rng)
    if r < 0.45 and boxes:
        nk = rng.choice([0, 1, 2, 3])
        kids = [gen_value(rng, depth - 1, nmut + 1, boxes) for _ in range(nk)]
        pl = {}
        if rng.random() < 0.3:
            pl["catch"] = True
        if rng.random() < 0.3:
            pl["raise_at"] = rng.choice([0, -1] + list(range(1, nk + 1)))
            if rng.random() < 0.25:
                pl["exc"] = "planbase"
        if rng.random() < 0.25:
            pl["reenter"] = gen_value(rng, min(depth - 1, 2), 0, boxes=False)
        if rng.random() < 0.08:
            pl["register"] = True
        return {"t": "box", "cls": rng.choice([0, 1, 2]), "kids": kids, "plan": pl}
    t = rng.choice(["list", "list", "tuple", "dict", "set", "mlist", "mlist", "mtuple", "mset", "mexpr", "mexpr", "mdict"])
    n = rng.choice([0, 1, 2, 2, 3])
    if t == "list":
        return {"t": t, "items": [gen_value(rng, depth - 1, nmut + 1, boxes) for _ in range(n)]}
    if t == "dict":
        keys = []
        items = []
        for _ in range(n):
            k = gen_hashable(rng)
            if any(_same_key(k, k2) for k2 in keys):
                continue
            keys.append(k)
            items.append([k, gen_value(rng, depth - 1, nmut + 1, boxes)])
        return {"t": t, "items": items}
    if t == "set":
        return {"t": t, "items": [gen_hashable(rng)] if n else []}
    if t == "mdict":
        n = n + (n % 2)
    items = [gen_value(rng, depth - 1, nmut, boxes) for _ in range(n)]
    if t == "mexpr" and items:
        items[0] = {"t": "sym", "v": rng.choice(["foo", "bar", "print", "f"])}
    return {"t": t, "items": items}


def _same_key(a, b):
    # would the two built keys collide in a Python dict?
    return _key_of(a) == _key_of(b)


def _key_of(s):
    t = s["t"]
    if t == "int":
        return ("n", s["v"])
    if t in ("str", "sym"):
        return ("s", s["v"])  # Symbol == str
    if t == "kw":
        return ("k", s["v"])
    return (t, str(s.get("v")))


def build(spec, anc=None):
    hy = _S["hy"]
    M = hy.models
    anc = anc if anc is not None else []
    t = spec["t"]
    if t in ("int", "str", "float", "bool"):
        return spec["v"]
    if t == "none":
        return None
    if t == "bytes":
        return spec["v"].encode()
    if t == "kw":
        return M.Keyword(spec["v"])
    if t == "sym":
        return M.Symbol(spec["v"])
    if t == "mint":
        return M.Integer(spec["v"])
    if t == "mstr":
        return M.String(spec["v"])
    if t == "mfloat":
        return M.Float(spec["v"])
    if t == "ref":
        return anc[-spec["up"]]
    if t == "kept":
        k = CTX.kept[spec["i"]]
        obj = build(k, []) if CTX.kept_is_spec else k
        for j in spec.get("path", []):
            # an INNER node of the earlier object (reached through that object the first time, named directly now)
            if isinstance(obj, dict):
                obj = list(obj.values())[j]
            elif hasattr(obj, "kids"):
                obj = obj.kids[j]
            else:
                obj = list(obj)[j]
        return obj
    if t == "list":
        l = []
        anc.append(l)
        l.extend(build(s, anc) for s in spec["items"])
        anc.pop()
        return l
    if t == "dict":
        d = {}
        anc.append(d)
        for k, v in spec["items"]:
            d[build(k, anc)] = build(v, anc)
        anc.pop()
        return d
    if t == "box":
        b = _S["boxes"][spec["cls"]]()
        b.plan = spec["plan"]
        anc.append(b)
        b.kids = [build(s, anc) for s in spec["kids"]]
        anc.pop()
        return b
    if t == "deep":
        l = []
        for _ in range(spec["n"]):
            l = [l]
        return l
    if t == "nest":
        l = build(spec["leaf"], anc)
        for _ in range(spec["n"]):
            l = [l]
        return l
    if t == "exotic":
        return build_exotic(spec, [build(s, anc) for s in spec["kids"]])
    items = [build(s, anc) for s in spec["items"]]
    if t == "tuple":
        return tuple(items)
    if t == "set":
        return set(items)
    return {"mlist": M.List, "mtuple": M.Tuple, "mset": M.Set, "mexpr": M.Expression, "mdict": M.Dict}[t](items)


def _hashable(v):
    try:
        hash(v)
        return True
    except TypeError:
        return False


def build_exotic(spec, kids):
    import collections
    import datetime
    import fractions
    import re
    hy = _S["hy"]
    M = hy.models
    k, n = spec["k"], spec["n"]
    hk = [v for v in kids if _hashable(v)]
    if k == "range":
        return range(n)
    if k == "range3":
        return range(1, n + 5, 2)
    if k == "slice":
        return slice(None, n, None) if n % 2 else slice(1, n, 2)
    if k == "frac":
        return fractions.Fraction(n, 7)
    if k == "bytearray":
        return bytearray(b"ab" * (n % 3))
    if k == "frozenset":
        return frozenset(hk[:1])
    if k == "deque":
        return collections.deque(kids)
    if k == "odict":
        return collections.OrderedDict((i, v) for i, v in enumerate(kids))
    if k == "counter":
        return collections.Counter({"a": n})
    if k == "ddict":
        d = collections.defaultdict(list)
        for i, v in enumerate(kids):
            d[i] = v
        return d
    if k == "chainmap":
        return collections.ChainMap({"k": kids[0] if kids else n}, {"j": n})
    if k in ("dkeys", "dvalues", "ditems"):
        d = {i: v for i, v in enumerate(kids)}
        return {"dkeys": d.keys, "dvalues": d.values, "ditems": d.items}[k]()
    if k == "date":
        return datetime.date(2000 + n, 1 + n % 12, 1 + n)
    if k == "datetime":
        return datetime.datetime(2000 + n, 1 + n % 12, 1 + n, n, 5, 0, n * 1000 if n % 2 else 0)
    if k == "time":
        return datetime.time(n, 7, 9, fold=n % 2)
    if k == "namedtuple":
        NT = collections.namedtuple("NT", ["a", "b"])
        return NT(kids[0] if kids else n, n)
    if k == "pattern":
        return re.compile("a+b" * (n % 2 + 1), re.I if n % 2 else 0)
    if k == "match":
        return re.match("a+", "aaab")
    if k == "complex":
        return complex(n, -n)
    if k == "mcomplex":
        return M.Complex(complex(0, n))
    if k == "mfloatnan":
        return M.Float(float("nan"))
    if k == "mfloatinf":
        return M.Float(float("-inf"))
    if k == "nan":
        return float("nan")
    if k == "fstring":
        return M.FString([M.String("a{b"), M.FComponent([M.Symbol("x"), M.String(">3")], conversion="r")])
    if k == "bstring":
        return M.String("br]acket", brackets="x")
    if k == "mbytes":
        return M.Bytes(b"by\"tes")
    if k == "ellipsis":
        return Ellipsis
    if k == "type":
        return int
    return len


# ------------------------------------------------------------------ independent reference printer


class Unsupported(Exception):
    pass


def _ref_str(s, prefix=""):
    r = repr(s)
    if prefix:
        r = r[len(prefix):]
    if r.startswith('"'):
        return prefix + r
    return prefix + '"' + r[1:-1].replace('"', '\\"') + '"'


def ref_repr(spec, q=False, anc=None):
    """What hy.repr must print for the value described by spec, from the
    documented rules (quote prefix once per outermost model, container syntax,
    cycle placeholders); planned printer failures propagate as exceptions."""
    anc = anc if anc is not None else []
    t = spec["t"]
    pre = ""
    if is_model(spec) and not q:
        pre = "'"
        q = True
    if t == "int" or t == "mint":
        return pre + repr(spec["v"])
    if t == "float" or t == "mfloat":
        v = spec["v"]
        if v == float("inf"):
            return pre + "Inf"
        return pre + repr(v)
    if t == "bool":
        return "True" if spec["v"] else "False"
    if t == "none":
        return "None"
    if t == "str" or t == "mstr":
        return pre + _ref_str(spec["v"])
    if t == "bytes":
        return _ref_bytes(spec["v"].encode())
    if t == "kw":
        return ":" + spec["v"]
    if t == "sym":
        return pre + spec["v"]
    if t == "ref":
        target = anc[-spec["up"]]
        if target["t"] == "list":
            return "[...]"
        if target["t"] == "dict":
            return "{...}"
        if target["t"] == "box":
            return PLACEHOLDER[target["cls"]] or "..."
        raise Unsupported()
    if t == "list":
        anc.append(spec)
        try:
            return "[" + " ".join(ref_repr(s, q, anc) for s in spec["items"]) + "]"
        finally:
            anc.pop()
    if t == "dict":
        anc.append(spec)
        try:
            return "{" + "  ".join(ref_repr(k, q, anc) + " " + ref_repr(v, q, anc) for k, v in spec["items"]) + "}"
        finally:
            anc.pop()
    if t == "box":
        anc.append(spec)
        try:
            p = spec["plan"]
            parts = []
            if p.get("reenter") is not None:
                parts.append("<" + ref_repr(p["reenter"], q, []) + ">")
            ra = p.get("raise_at")
            exc = PlanBaseError if p.get("exc") == "planbase" else PlanError
            if ra == 0:
                raise exc()
            for j, kid in enumerate(spec["kids"]):
                if p.get("catch"):
                    try:
                        parts.append(ref_repr(kid, q, anc))
                    except Exception as e:
                        if isinstance(e, Unsupported):
                            raise
                        parts.append("<ERR " + type(e).__name__ + ">")
                else:
                    parts.append(ref_repr(kid, q, anc))
                if ra == j + 1:
                    raise exc()
            if ra == -1:
                raise exc()
            return pre + "(Box%d%s)" % (spec["cls"], "".join(" " + s for s in parts))
        finally:
            anc.pop()
    if t == "deep":
        raise RecursionError()
    if t == "nest":
        if spec["n"] > 250:
            raise Unsupported()   # near the recursion limit: whether it prints is decided by the pristine call
        return "[" * spec["n"] + ref_repr(spec["leaf"], q, []) + "]" * spec["n"]
    if t == "exotic":
        raise Unsupported()
    if t == "kept":
        ks = CTX.kept_specs[spec["i"]]
        if spec.get("path"):
            if _has_ref(ks):
                raise Unsupported()   # a cycle may run through nodes above the inner node: the pristine call decides
            for j in spec["path"]:
                ks = (ks["items"][j][1] if ks["t"] == "dict" else ks["kids"][j] if ks["t"] == "box" else ks["items"][j])
        return ref_repr(ks, q, [])
    items = [ref_repr(s, q, anc) for s in spec["items"]]
    if t in ("tuple", "mtuple"):
        return pre + "#(" + " ".join(items) + ")"
    if t in ("set", "mset"):
        return pre + "#{" + " ".join(items) + "}"
    if t == "mlist":
        return pre + "[" + " ".join(items) + "]"
    if t == "mexpr":
        return pre + "(" + " ".join(items) + ")"
    if t == "mdict":
        out = ""
        for i, s in enumerate(items):
            out += (" " if i else "") + (" " if (i and i % 2 == 0) else "") + s
        return pre + "{" + out + "}"
    raise Unsupported()


def _ref_bytes(b):
    r = repr(b)[1:]
    if r.startswith('"'):
        return "b" + r
    return 'b"' + r[1:-1].replace('"', '\\"') + '"'


# ------------------------------------------------------------------ history generation


def shape(spec, d=2):
    t = spec["t"]
    if t == "exotic":
        return "x:" + spec["k"]
    if t == "kept":
        return "kept"
    if d == 0 or t not in ("list", "tuple", "dict", "set", "mlist", "mtuple", "mset", "mexpr", "mdict", "box"):
        return t
    if t == "dict":
        kids = [shape(v, d - 1) for _, v in spec["items"]]
    elif t == "box":
        kids = [shape(s, d - 1) for s in spec["kids"]]
        pl = spec["plan"]
        t = "box%d%s%s%s" % (spec["cls"], "c" if pl.get("catch") else "", "r" if "raise_at" in pl else "",
                             "e" if pl.get("reenter") else "")
    else:
        kids = [shape(s, d - 1) for s in spec["items"]]
    return t + "(" + ",".join(kids) + ")"


PROBES = [
    {"t": "list", "items": [{"t": "int", "v": 1}, {"t": "sym", "v": "a"}, {"t": "mlist", "items": [{"t": "sym", "v": "b"}, {"t": "int", "v": 1}]}, {"t": "sym", "v": "c"}]},
    {"t": "mexpr", "items": [{"t": "sym", "v": "f"}, {"t": "mlist", "items": [{"t": "mint", "v": 1}]}, {"t": "str", "v": "s"}]},
    {"t": "list", "items": [{"t": "ref", "up": 1}, {"t": "dict", "items": [[{"t": "int", "v": 1}, {"t": "ref", "up": 1}]]}]},
    {"t": "box", "cls": 2, "kids": [{"t": "sym", "v": "k"}, {"t": "ref", "up": 1}], "plan": {}},
    {"t": "tuple", "items": [{"t": "int", "v": 0}, {"t": "bool", "v": True}, {"t": "none"}, {"t": "str", "v": ""}]},
]


def _inner_paths(spec, prefix=(), depth=0):
    """Paths (tuples of child indexes) to inner container / model / box nodes of a spec; sets are skipped (no order)."""
    out = []
    t = spec["t"]
    if depth >= 3:
        return out
    if t in ("list", "tuple", "mlist", "mtuple", "mexpr", "mdict"):
        kids = spec["items"]
    elif t == "dict":
        kids = [v for _, v in spec["items"]]
    elif t == "box":
        kids = spec["kids"]
    else:
        return out
    for i, c in enumerate(kids):
        if c["t"] in ("list", "tuple", "dict", "mlist", "mtuple", "mexpr", "mdict", "box"):
            out.append(prefix + (i,))
            out += _inner_paths(c, prefix + (i,), depth + 1)
    return out


def generate(rng, tier):
    n = rng.randrange(3, 13)
    ops = []
    prev_failed_like = False
    for i in range(n):
        if rng.random() < 0.04:
            ops.append({"value": {"t": "deep", "n": rng.choice([1200, 5000])}})
            prev_failed_like = True
            continue
        if rng.random() < 0.04:
            # a printer that catches a failure raised below a model and then goes on to a member that refers back to an
            # enclosing container: the cycle marks of the containers in progress must have survived the failure
            c1, c2 = rng.choice([0, 1, 2]), rng.choice([0, 1, 2])
            inner = {"t": rng.choice(["mlist", "mexpr", "mtuple"]), "items": [{"t": "sym", "v": "q"},
                     {"t": "box", "cls": c2, "kids": [], "plan": {"raise_at": 0}}]}
            back = {"t": "ref", "up": rng.choice([1, 2])}
            ops.append({"value": {"t": "list", "items": [{"t": "int", "v": 1},
                        {"t": "box", "cls": c1, "kids": [inner, back, {"t": "sym", "v": "z"}], "plan": {"catch": True}}]}})
            prev_failed_like = True
            continue
        if rng.random() < 0.04:
            # a value under many plain containers, well inside the recursion limit (depth thresholds, counters)
            # (depths near the recursion limit are NOT generated: whether such a call fails depends on how deep the
            # caller's own stack is, which differs between a pool worker and a fresh interpreter)
            ops.append({"value": {"t": "nest", "n": rng.choice([17, 32, 33, 64, 100, 127, 128, 129, 199, 200, 201, 250]),
                                  "leaf": rng.choice([{"t": "sym", "v": "a"}, {"t": "mlist", "items": [{"t": "sym", "v": "b"}, {"t": "int", "v": 1}]},
                                                      {"t": "int", "v": 7}, {"t": "str", "v": "s"},
                                                      # a printer that raises at the bottom: the failure unwinds every level
                                                      {"t": "box", "cls": 0, "kids": [], "plan": {"raise_at": 0}},
                                                      {"t": "mexpr", "items": [{"t": "sym", "v": "f"}, {"t": "box", "cls": 1, "kids": [], "plan": {"raise_at": 0}}]}])}})
            prev_failed_like = True
            continue
        if prev_failed_like and ops and rng.random() < 0.3 and ops[-1]["value"]["t"] != "deep":
            # same value again, no injected fault: lands right after a failure
            ops.append({"value": ops[-1]["value"]})
            prev_failed_like = False
            continue
        keepable = [j for j, o in enumerate(ops) if o.get("keep")]
        if keepable and rng.random() < 0.25:
            # the SAME object as an earlier call, alone or nested inside a fresh container / model
            j = rng.choice(keepable)
            ref = {"t": "kept", "i": j}
            paths = _inner_paths(ops[j]["value"])
            if paths and rng.random() < 0.45:
                ref["path"] = list(rng.choice(paths))
            v = rng.choice([ref, {"t": "list", "items": [{"t": "int", "v": 5}, ref]}, {"t": "mlist", "items": [{"t": "sym", "v": "x"}, ref]},
                            {"t": "tuple", "items": [ref, ref]}, {"t": "mexpr", "items": [{"t": "sym", "v": "g"}, ref]}])
            ops.append({"value": v})
            prev_failed_like = False
            continue
        v = gen_value(rng, rng.choice([1, 2, 3, 3, 4]), 0)
        op = {"value": v}
        if v["t"] not in ("deep",) and rng.random() < 0.4:
            op["keep"] = True
        if rng.random() < 0.4:
            op["k"] = rng.choice([rng.randrange(0, 12), rng.randrange(0, 40), rng.randrange(0, 120)])
            op["exc"] = rng.choice(["fault", "fault", "fault", "base", "kbd"])
            if tier == "thorough" and rng.random() < 0.08:
                op["enum"] = True
        if rng.random() < 0.06:
            op["pretty_off"] = True
        prev_failed_like = "k" in op or _has_raise(v)
        ops.append(op)
    return {"ops": ops, "fork_ref": rng.random() < (0.05 if tier == "thorough" else 0.01)}


def _has_raise(spec):
    if spec["t"] == "exotic":
        return any(_has_raise(s) for s in spec["kids"])
    if spec["t"] == "box":
        return "raise_at" in spec["plan"] or any(_has_raise(s) for s in spec["kids"])
    if spec["t"] == "dict":
        return any(_has_raise(v) for _, v in spec["items"])
    return any(_has_raise(s) for s in spec.get("items", []))


# ------------------------------------------------------------------ execution


def _call(fn, hy_repr_code, spec, k, exc, register=None, kept=None, keep_into=None, kept_is_spec=False):
    """One hy.repr call under the crash-point tracer. Returns (outcome, N, fired)."""
    CTX.repr = fn
    CTX.register = register
    CTX.kept = kept
    CTX.kept_is_spec = kept_is_spec
    CTX.box_calls = 0
    value = build(spec)
    if keep_into is not None:
        keep_into[0] = value
    # eligible = frames of printers proper: hy's built-in printers (same file as hy-repr, never hy-repr itself) and the
    # simulator's Box printers; frames of the standard library below them are excluded, because their line counts
    # depend on caches warmed by earlier calls (enum pseudo-members, re cache), which would make k land elsewhere
    files = (hy_repr_code.co_filename, __file__)
    # step cap: the largest call of a quick batch on the unchanged tree takes < STEP_CAP / 50 printer line events; a
    # printer that stops terminating (e.g. cycle detection lost under catch-and-continue printers) is cut off and
    # the call's outcome is StepCapExceeded, which the oracles compare like any other outcome
    tr = CrashTracer(lambda code: code is not hy_repr_code and code.co_filename in files, k=k, exc=exc or "fault",
                     cap=STEP_CAP)
    # backstop for the part of a call the tracer no longer sees (CPython un-sets tracing once an injected fault
    # has been raised; a catching printer may continue from there): CPU-time watchdog, far above any call on a
    # tree where printing terminates (milliseconds), so it never decides an outcome there
    old = signal.signal(signal.SIGVTALRM, _watchdog)
    signal.setitimer(signal.ITIMER_VIRTUAL, WATCHDOG_CPU_S, 0.5)  # repeats: a handler call at the recursion limit fails
    try:
        if spec["t"] == "deep":
            text = fn(value)  # untraced: the fault here is the RecursionError itself
        else:
            with tr:
                text = fn(value)
        out = ["ok", text]
    except (Exception, InjectedBaseFault, PlanBaseError, KeyboardInterrupt, StepCapExceeded) as e:
        out = ["exc", type(e).__name__]
    finally:
        signal.setitimer(signal.ITIMER_VIRTUAL, 0)
        signal.signal(signal.SIGVTALRM, old)
        CTX.repr = None
    if spec["t"] == "deep":
        # free the deep structure without recursion trouble
        while value:
            value = value[0]
    return out, tr.count, tr.fired


def _pristine_call(spec, k, exc, kept_specs=None):
    m = _fresh_instance()
    return _call(m.hy_repr, m.hy_repr.__code__, spec, k, exc, register=m.hy_repr_register, kept=kept_specs,
                 kept_is_spec=True)


def _forked_call(arg):
    spec, k, exc = arg
    out, n, fired = _call(_S["sut_repr"], _S["sut_repr"].__code__, spec, k, exc, register=_S["hy"].repr_register)
    return out


def execute(desc):
    setup_worker()
    from sim import kernel
    sut = _S["sut_repr"]
    sut_code = sut.__code__
    events, viols = [], []
    faults = {"injected_line_fault": 0, "injected_base_fault": 0, "planned_printer_raise": 0, "recursion_error": 0,
              "caught_and_continued": 0}
    probes = {"calls": 0, "checked_after_failure": 0, "fault_under_model_quoting": 0, "fault_inside_cycle": 0,
              "forked_reference_calls": 0, "reference_printer_checks": 0, "enumerated_crash_points": 0}
    seq = []
    failed_before = False
    nontrivial = False

    kept_objs, kept_specs = {}, {}
    CTX.kept_specs = kept_specs

    def one(i, spec, k, exc, tag, keep=False, pretty_off=False):
        nonlocal failed_before, nontrivial
        slot = [None]
        M = _S["hy"].models
        if pretty_off:
            # the call is made under `with hy.models.pretty(False)`: whatever happens inside (a printer that raises,
            # an injected fault), the configuration must be back afterwards
            try:
                with M.pretty(False):
                    got, n, fired = _call(sut, sut_code, spec, k, exc, register=_S["hy"].repr_register, kept=kept_objs,
                                          keep_into=slot if keep else None)
                    if got[0] == "exc":
                        raise _LeaveWith()   # the failure of the call leaves the `with` body as an exception
            except _LeaveWith:
                pass
            probes["calls_under_pretty_false"] = probes.get("calls_under_pretty_false", 0) + 1
        else:
            got, n, fired = _call(sut, sut_code, spec, k, exc, register=_S["hy"].repr_register, kept=kept_objs,
                                  keep_into=slot if keep else None)
        if M.PRETTY is not True:
            viols.append({"clause": "configuration_leak", "sig": "models.PRETTY",
                          "detail": {"op": i, "tag": tag, "PRETTY": repr(M.PRETTY), "outcome": got[0]}})
            M.PRETTY = True
        if keep:
            kept_objs[i] = slot[0]
            kept_specs[i] = spec
            probes["objects_kept_for_later_calls"] = probes.get("objects_kept_for_later_calls", 0) + 1
        if _has_kept(spec):
            probes["calls_on_an_earlier_object"] = probes.get("calls_on_an_earlier_object", 0) + 1
        want, n2, fired2 = _pristine_call(spec, k, exc, kept_specs)
        probes["calls"] += 1
        if failed_before:
            probes["checked_after_failure"] += 1
            nontrivial = True
        events.append([i, tag, shape(spec), k, got[0], got[1] if got[0] == "exc" else got[1][:200]])
        if got != want:
            viols.append({"clause": "history_dependence", "sig": "%s/%s" % (got[0], want[0]),
                          "detail": {"op": i, "tag": tag, "got": got, "pristine": want, "k": k, "value": spec}})
        if desc.get("fork_ref") and spec["t"] != "deep" and not _has_kept(spec):
            try:
                ref = kernel.run_isolated(_forked_call, (spec, k, exc), 60)
                probes["forked_reference_calls"] += 1
                if ref != want:
                    viols.append({"clause": "pristine_instance_vs_forked_process", "sig": "stub",
                                  "detail": {"op": i, "forked": ref, "instance": want, "value": spec}})
            except kernel.HarnessFault:
                raise
        if fired is None and spec["t"] != "deep":
            # no injected fault fired: the independent reference printer applies
            try:
                try:
                    exp = ["ok", ref_repr(spec)]
                except (PlanError, PlanBaseError) as e:
                    exp = ["exc", type(e).__name__]
                probes["reference_printer_checks"] += 1
                if exp != want:
                    viols.append({"clause": "reference_printer", "sig": spec["t"],
                                  "detail": {"op": i, "pristine": want, "expected": exp, "value": spec}})
            except Unsupported:
                pass
        # fault accounting
        if fired is not None:
            faults["injected_base_fault" if exc in ("base", "kbd") else "injected_line_fault"] += 1
            if is_model(spec):
                probes["fault_under_model_quoting"] += 1
            if _has_ref(spec):
                probes["fault_inside_cycle"] += 1
            if got[0] == "ok":
                faults["caught_and_continued"] += 1
        if got[0] == "exc" and got[1] in ("PlanError", "PlanBaseError"):
            faults["planned_printer_raise"] += 1
        if got[0] == "exc" and got[1] == "RecursionError":
            faults["recursion_error"] += 1
        if got[0] == "exc" or fired is not None or (got[0] == "ok" and "<ERR" in got[1]):
            failed_before = True
        seq.append((shape(spec, 1), got[0] if got[0] == "ok" else got[1]))
        return n2

    for i, op in enumerate(desc["ops"]):
        spec = op["value"]
        if op.get("enum"):
            _, n, _ = _pristine_call(spec, None, None)
            for k in range(min(n, 400)):
                one(i, spec, k, op.get("exc"), "enum")
                one(i, PROBES[k % len(PROBES)], None, None, "probe")
                probes["enumerated_crash_points"] += 1
            if op.get("keep"):
                # later calls may name this op's object: make the op's own call too, keeping the object
                one(i, spec, op.get("k"), op.get("exc"), "op", keep=True)
        else:
            one(i, spec, op.get("k"), op.get("exc"), "op", keep=bool(op.get("keep")), pretty_off=bool(op.get("pretty_off")))
    for j, p in enumerate(PROBES):
        one(len(desc["ops"]) + j, p, None, None, "probe")

    sigs = [kernel.digest(seq)] if nontrivial else []
    return {"events": events, "violations": viols[:4], "faults": faults, "probes": probes, "sigs": sigs,
            "steps": probes["calls"]}


def _has_kept(spec):
    if spec["t"] == "kept":
        return True
    if spec["t"] == "dict":
        return any(_has_kept(v) for _, v in spec["items"])
    return any(_has_kept(s) for s in spec.get("items", []) + spec.get("kids", []))


def _has_ref(spec):
    if spec["t"] in ("ref", "kept"):
        return True
    if spec["t"] == "exotic":
        return any(_has_ref(s) for s in spec["kids"])
    if spec["t"] == "dict":
        return any(_has_ref(v) for _, v in spec["items"])
    if spec["t"] == "box":
        return any(_has_ref(s) for s in spec["kids"])
    return any(_has_ref(s) for s in spec.get("items", []))


# ------------------------------------------------------------------ shrinking


def _simpler_values(spec):
    t = spec["t"]
    if t in ("list", "tuple", "mlist", "mtuple", "mset", "mexpr", "set"):
        items = spec["items"]
        for i in range(len(items)):
            yield dict(spec, items=items[:i] + items[i + 1:])
        for i, s in enumerate(items):
            for s2 in _simpler_values(s):
                yield dict(spec, items=items[:i] + [s2] + items[i + 1:])
    elif t == "dict":
        items = spec["items"]
        for i in range(len(items)):
            yield dict(spec, items=items[:i] + items[i + 1:])
        for i, (k, v) in enumerate(items):
            for v2 in _simpler_values(v):
                yield dict(spec, items=items[:i] + [[k, v2]] + items[i + 1:])
    elif t == "box":
        kids = spec["kids"]
        pl = spec["plan"]
        for key in ("reenter", "catch"):
            if key in pl:
                yield dict(spec, plan={a: b for a, b in pl.items() if a != key})
        if not _has_ref(spec):
            for i in range(len(kids)):
                if pl.get("raise_at", 0) in (0, -1) or pl.get("raise_at", 0) <= len(kids) - 1:
                    yield dict(spec, kids=kids[:i] + kids[i + 1:])
        for i, s in enumerate(kids):
            for s2 in _simpler_values(s):
                yield dict(spec, kids=kids[:i] + [s2] + kids[i + 1:])
    elif t == "exotic":
        for i in range(len(spec["kids"])):
            yield dict(spec, kids=spec["kids"][:i] + spec["kids"][i + 1:])
        yield {"t": "int", "v": 1}
    elif t not in ("int", "ref", "deep"):
        yield {"t": "int", "v": 1}


def shrink(desc):
    ops = desc["ops"]
    if desc.get("fork_ref"):
        yield dict(desc, fork_ref=False)
    n = len(ops)
    size = n // 2
    while size >= 1:
        for i in range(0, n, size):
            yield dict(desc, ops=ops[:i] + ops[i + size:])
        size //= 2
    for i, op in enumerate(ops):
        if op.get("enum"):
            yield dict(desc, ops=ops[:i] + [{a: b for a, b in op.items() if a != "enum"}] + ops[i + 1:])
        if "k" in op:
            yield dict(desc, ops=ops[:i] + [{"value": op["value"]}] + ops[i + 1:])
            if op["k"] > 0:
                yield dict(desc, ops=ops[:i] + [dict(op, k=op["k"] // 2)] + ops[i + 1:])
                yield dict(desc, ops=ops[:i] + [dict(op, k=op["k"] - 1)] + ops[i + 1:])
            if op.get("exc") != "fault":
                yield dict(desc, ops=ops[:i] + [dict(op, exc="fault")] + ops[i + 1:])
    for i, op in enumerate(ops):
        if _has_ref(op["value"]):
            continue
        for v2 in _simpler_values(op["value"]):
            yield dict(desc, ops=ops[:i] + [dict(op, value=v2)] + ops[i + 1:])
