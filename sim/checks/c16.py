"""C16 -- compile-time staging: eval-and-compile, eval-when-compile, do-mac.

Generated modules put the three staging forms at top level and inside function
bodies; every body calls the simulator's log function, which records the tag
together with the phase the world engine is in (inside the loader's get_code =
compile phase, otherwise run phase).  A run is a history over the scratch world:
source load, cached load after a restart, touch, edit, pyc deletion / header
truncation, failing bytecode writes, -B, and calls of the functions.  After every
step the compile-phase and run-phase logs must equal the reference staging
model: on a source load every staging body once, in source order, at compile
time, and the eval-and-compile bodies plus ordinary effects once at run time; on
a cached load nothing at compile time and the same run-time log; values as the
semantics prescribe.  The path taken is observed, never guessed.
"""
import os
import sys
import types

from sim.engines.world import World

PROPERTY = "C16"
LEVEL = "exploration"
ISOLATE = False
RUN_TIMEOUT = 300.0
RULE = ("one run = one generated module with 2-8 staging / ordinary forms (top level and inside defn) and a history of 4-10 "
        "ops (import after restart, call a function, touch, edit, pyc loss/truncation, write fault, -B). Non-trivial = the "
        "module was loaded both from source and from cache in the run; distinct = distinct (form kinds and placement, op "
        "sequence, load paths) digests")
REAL = ["compile_eval_foo_compile, HyASTCompiler.eval, the importer and CPython's bytecode cache"]
STUB = ["effect log (c16_simlog.log, owned by the simulator)", "restart, mtime clock and bytecode-write seam of the world engine"]
ASSUMPTIONS = ["staging forms are not nested inside each other (not in the property's quantifier)"]

_S = {}


def setup_worker():
    if _S:
        return
    import hy
    _S["hy"] = hy
    _S["n"] = 0
    m = types.ModuleType("c16_simlog")
    m.events = []
    m.world = None

    def log(tag):
        m.events.append(["compile" if (m.world is not None and m.world.in_compile_phase()) else "run", tag])
        return tag

    m.log = log

    class CM:
        def __enter__(self):
            return self

        def __exit__(self, *a):
            return False

    m.CM = CM
    sys.modules["c16_simlog"] = m
    _S["log"] = m


def plan(tier):
    if tier == "thorough":
        return {"runs": 6000, "budget_s": 1500, "chunk": 10, "recheck": 8, "shrink_s": 150}
    return {"runs": 320, "budget_s": 200, "chunk": 4, "recheck": 4, "shrink_s": 60}


# ------------------------------------------------------------------ generation

L = "hy.I.c16-simlog.log"


UNCHECKED = "<value of the enclosing construct: not part of this check>"
CTX = {None: 1, "with2": 1, "if_false": 0, "if_true": 1, "loop2": 2, "loop_break": 0, "lfor": 2, "fn_uncalled": 0, "kwarg": 1,
       "while_false": 0, "try_finally": 1, "class": 1, "after_raise": 0, "cond2": 1, "and_false": 0}


def gen_form(rng, k, in_fn):
    kind = rng.choice((["eac_def"] if not in_fn else []) + ["ewc", "eac", "domac", "domac_rt", "plain", "domac_val", "domac_staged"])
    ctx = None
    if kind != "eac_def" and rng.random() < 0.35:
        # the staging form sits somewhere inside another construct: compiled exactly once wherever it is (also in code
        # that never runs, or that the compiler lifts into statements), run as often as control reaches it
        ctx = rng.choice([c for c in CTX if c is not None and not (in_fn and c == "class")])
    return {"kind": kind, "n": rng.choice([1, 1, 2]), "bind": rng.random() < 0.6 and ctx is None, "ctx": ctx,
            "spell": rng.choice(["-", "-", "-", "_", "R", "A"]),     # eval-and-compile / eval_and_compile / hy.R.hy/core/result-macros.… / required under an alias
            "val": rng.choice(["0", '""', "False", "[]", "None", "0.0", "#()", '"s"', "[1 2]"]),
            "inner": rng.choice(["ewc", "eac", "domac"])}


def generate(rng, tier):
    forms = []
    for k in range(rng.randrange(2, 9)):
        if rng.random() < 0.3:
            body = [gen_form(rng, k, True) for _ in range(rng.randrange(1, 4))]
            if rng.random() < 0.3:
                # a local macro defined (and maybe used) before the staging forms of the same body
                body.insert(rng.randrange(len(body)), {"kind": "lmac", "n": 1, "bind": False, "ctx": None, "use": rng.random() < 0.5})
            forms.append({"kind": "defn", "body": body,
                          "ret_at": rng.randrange(len(body)) if rng.random() < 0.3 else None})
        else:
            forms.append(gen_form(rng, k, False))
    nfn = sum(1 for f in forms if f["kind"] == "defn")
    ops = [{"op": "import"}]
    for _ in range(rng.randrange(3, 10)):
        r = rng.random()
        if r < 0.4:
            ops.append({"op": "import"})
        elif r < 0.55 and nfn:
            ops.append({"op": "call", "fn": rng.randrange(nfn)})
        elif r < 0.63:
            ops.append({"op": "touch"})
        elif r < 0.73:
            ops.append({"op": "edit"})
        elif r < 0.8:
            ops.append({"op": "rm_pyc"})
        elif r < 0.86:
            ops.append({"op": "trunc_pyc", "n": rng.choice([0, 3, 8, 15])})
        elif r < 0.92:
            ops.append({"op": "arm", "fault": rng.choice(["enospc", "eacces", "crash_before_rename"])})
        elif r < 0.94:
            # the module shipped in a zip archive: source and bytecode together, bytecode only, source only
            ops.append({"op": "zip_import", "what": rng.choice(["both", "both", "pyc", "src"])})
        elif r < 0.99:
            # the same text run as a script (what `hy FILE` does), with and without a suffix: the first run compiles
            # and caches, the next one runs the cached bytecode
            ops.append({"op": "run_path", "suffix": rng.choice(["", "", ".hy", ".txt"]), "stem": rng.choice(["", "", "my-", "2nd-", "2"])})
            if rng.random() < 0.7:
                ops.append(dict(ops[-1]))
        else:
            ops.append({"op": "dwb", "on": rng.random() < 0.6})
    ops += [{"op": "import"}, {"op": "import"}]
    if nfn:
        ops.append({"op": "call", "fn": rng.randrange(nfn)})
    return {"forms": forms, "ops": ops}


# ------------------------------------------------------------------ text + reference staging model


class Model:
    """Renders the module and predicts, per the documented semantics, the logs."""

    def __init__(self, desc, ver):
        self.lines = []
        self.compile_log = []   # tags logged while compiling, in source order
        self.run_log = []       # tags logged while running the module body
        self.values = {}        # module-level variable -> value
        self.fns = []           # per function: {"name", "run_log", "value"}
        self.t = 0
        self.ver = ver
        self.uses_alias = False
        for f in desc["forms"]:
            if f["kind"] == "defn":
                self.defn(f)
            else:
                text, val = self.wrapped(f, self.run_log)
                if f.get("bind") or f["kind"] == "eac_def":
                    var = "x%d" % self.t
                    if f["kind"] == "eac_def":
                        self.lines.append(text)
                    else:
                        self.lines.append(f"(setv {var} {text})")
                        self.values[var] = val
                else:
                    self.lines.append(text)

    def tag(self):
        self.t += 1
        return "t%d.v%d" % (self.t, self.ver)

    def wrapped(self, f, run_log):
        tmp = []
        text, val = self.form(f, tmp)
        ctx = f.get("ctx")
        run_log += tmp * CTX[ctx]
        CMX = "(hy.I.c16-simlog.CM)"
        u = self.t
        text = {
            None: text,
            "with2": f"(with [_ {CMX} _ (do {text} {CMX})] None)",
            "if_false": f"(if False {text} None)",
            "if_true": f"(if True {text} None)",
            "loop2": f"(for [_ (range 2)] {text})",
            "loop_break": f"(for [_ (range 2)] (break) {text})",
            "lfor": f"(lfor _ (range 2) {text})",
            "fn_uncalled": f"(fn [] {text})",
            "kwarg": f"(dict :a {text})",
            "while_false": f"(while False {text})",
            "try_finally": f"(try None (finally {text}))",
            "class": f"(defclass K{u} [] {text})",
            "after_raise": f"(try (raise (ValueError)) {text} (except [ValueError]))",
            "cond2": f"(cond False 1 True {text})",
            "and_false": f"(and False {text})",
        }[ctx]
        return text, (val if ctx is None else UNCHECKED)

    def form(self, f, run_log):
        k = f["kind"]
        if k == "lmac":
            self.t += 1
            v = 6000 + self.t
            text = f"(defmacro lm{self.t} [] {v})"
            if f.get("use"):
                return f"(do {text} (lm{self.t}))", v
            return text, None
        tags = [self.tag() for _ in range(f["n"])]
        logs = " ".join(f'({L} "{t}")' for t in tags)
        sp = f.get("spell", "-")

        def name(n):
            if sp == "_":
                return n.replace("-", "_")
            if sp == "R":
                return "hy.R.hy/core/result-macros." + n
            if sp == "A":
                self.uses_alias = True
                return "staged-" + n
            return n

        EWC, EAC, DOMAC = name("eval-when-compile"), name("eval-and-compile"), name("do-mac")
        if k == "ewc":
            self.compile_log += tags
            return f"({EWC} {logs})", None
        if k == "eac":
            self.compile_log += tags
            run_log += tags
            v = 1000 + self.t
            return f"({EAC} {logs} {v})", v
        if k == "domac_val":
            # the value of the body is compiled as code, whatever it is -- also when it is falsy
            self.compile_log += tags
            lit = f.get("val", "0")
            pyval = {"0": 0, '""': "", "False": False, "[]": [], "None": None, "0.0": 0.0, "#()": (), '"s"': "s", "[1 2]": [1, 2]}[lit]
            return f"({DOMAC} {logs} {lit})", pyval
        if k == "domac_staged":
            # do-mac producing a staging form: that form is then compiled (hence staged) like any other code
            self.compile_log += tags
            it = self.tag()
            inner = f.get("inner", "ewc")
            v = 4000 + self.t
            if inner == "ewc":
                self.compile_log.append(it)
                return f"({DOMAC} {logs} '(eval-when-compile ({L} \"{it}\")))", None
            if inner == "eac":
                self.compile_log.append(it)
                run_log.append(it)
                return f"({DOMAC} {logs} '(eval-and-compile ({L} \"{it}\") {v}))", v
            self.compile_log.append(it)
            return f"({DOMAC} {logs} '(do-mac ({L} \"{it}\") {v}))", v
        if k == "eac_def":
            # defines a helper at both stages; a later run-time form uses it
            self.compile_log += tags
            run_log += tags
            hname = "helper%d" % self.t
            self.values[hname] = self.t
            return f"({EAC} {logs} (setv {hname} {self.t}))", None
        if k == "domac":
            self.compile_log += tags
            v = 2000 + self.t
            return f"({DOMAC} {logs} '(+ {v} 0))", v
        if k == "domac_rt":
            self.compile_log += tags
            rt = self.tag()
            run_log.append(rt)
            v = 3000 + self.t
            return f"({DOMAC} {logs} '(do ({L} \"{rt}\") {v}))", v
        t = tags[0]
        run_log.append(t)
        return f'(do ({L} "{t}") "{t}")', t

    def defn(self, f):
        name = "fn%d" % len(self.fns)
        fn_run = []
        body = []
        val = None
        for j, b in enumerate(f["body"]):
            tmp = []
            text, v = self.wrapped(b, tmp)
            body.append(text)
            if f.get("ret_at") is None or j <= f["ret_at"]:
                fn_run += tmp
                val = v
            if f.get("ret_at") == j:
                # forms after an unconditional return are still compiled (staged), never run
                body.append(f"(return {7000 + self.t})")
                val = 7000 + self.t
        self.lines.append(f"(defn {name} []\n  " + "\n  ".join(body) + ")")
        self.fns.append({"name": name, "run_log": fn_run, "value": val})

    def text(self):
        pre = ""
        if self.uses_alias:
            pre = ("(require hy.core.result-macros [eval-and-compile :as staged-eval-and-compile eval-when-compile :as "
                   "staged-eval-when-compile do-mac :as staged-do-mac])\n")
        return pre + "\n".join(self.lines) + "\n"


# ------------------------------------------------------------------ execution


def execute(desc):
    setup_worker()
    from sim import kernel
    _S["n"] += 1
    tag = "s%dx%d_" % (os.getpid() % 100000, _S["n"])
    W = World(tag)
    log = _S["log"]
    log.world = W
    name = tag + "mod"
    events, viols = [], []
    faults = {"bytecode_write_fault": 0, "pyc_deleted": 0, "pyc_header_truncated": 0, "dont_write_bytecode": 0,
              "source_touched": 0, "source_edited": 0}
    probes = {"loads_from_source": 0, "loads_from_cache": 0, "function_calls": 0, "staging_bodies_checked": 0,
              "loads_after_fault": 0}
    seq = []
    ver = 1
    try:
        model = Model(desc, ver)
        W.write(name, model.text())
        mod = None
        scripts = {}
        pyc_valid = False
        fault_pending = False
        paths = set()
        for oi, op in enumerate(desc["ops"]):
            kind = op["op"]
            if kind == "import":
                W.restart()
                del log.events[:]
                res, compiled, out, err = W.import_(name)
                armed = W.armed
                W.armed = None
                if isinstance(res, BaseException):
                    viols.append({"clause": "import_failed", "sig": type(res).__name__,
                                  "detail": {"op": oi, "error": repr(res)[:300], "stderr": err[-600:], "text": model.text()[:800]}})
                    break
                mod = res
                loaded_model = model
                path = "source" if name in compiled else "cache"
                paths.add(path)
                probes["loads_from_source" if path == "source" else "loads_from_cache"] += 1
                if fault_pending:
                    probes["loads_after_fault"] += 1
                if pyc_valid and path == "source":
                    viols.append({"clause": "load_path", "sig": "valid_pyc_not_used", "detail": {"op": oi}})
                if not pyc_valid and path == "cache":
                    viols.append({"clause": "load_path", "sig": "stale_pyc_used", "detail": {"op": oi}})
                if path == "source":
                    pyc_valid = armed is None and not sys.dont_write_bytecode
                got_c = [t for ph, t in log.events if ph == "compile"]
                got_r = [t for ph, t in log.events if ph == "run"]
                want_c = model.compile_log if path == "source" else []
                want_r = model.run_log
                probes["staging_bodies_checked"] += len(model.compile_log)
                if got_c != want_c:
                    viols.append({"clause": "compile_time_effects", "sig": path,
                                  "detail": {"op": oi, "path": path, "got": got_c, "expected": want_c, "text": model.text()[:1200]}})
                if got_r != want_r:
                    viols.append({"clause": "run_time_effects", "sig": path,
                                  "detail": {"op": oi, "path": path, "got": got_r, "expected": want_r, "text": model.text()[:1200]}})
                gotv = {k: getattr(mod, k, "<missing>") for k in model.values}
                if {k: repr(v) for k, v in gotv.items()} != {k: repr(v) for k, v in model.values.items()}:
                    viols.append({"clause": "values", "sig": path,
                                  "detail": {"op": oi, "path": path, "got": repr(gotv)[:300], "expected": repr(model.values)[:300],
                                             "text": model.text()[:1200]}})
                events.append([oi, "import", path, len(got_c), len(got_r)])
                seq.append(("import", path))
                fault_pending = False
            elif kind == "run_path":
                import contextlib
                import io
                from hy.importer import runhy
                sfx = op["suffix"]
                # (stems that are no Python identifiers are fine for scripts: a hyphen, a leading digit)
                sname = op.get("stem", "") + tag + "scr" + {"": "0", ".hy": "1", ".txt": "2"}[sfx]
                st = scripts.get(sname + sfx)
                if st is None or st["ver"] != ver:
                    W.write(sname, model.text(), ext=sfx)
                    st = scripts[sname + sfx] = {"ver": ver, "pyc_valid": False}
                del log.events[:]
                err = io.StringIO()
                saved_argv = list(sys.argv)
                try:
                    with contextlib.redirect_stderr(err), contextlib.redirect_stdout(io.StringIO()):
                        ns = runhy.run_path(W.files[sname], run_name="__main__")
                    rerr = None
                except BaseException as e:
                    ns, rerr = {}, e
                finally:
                    sys.argv[:] = saved_argv
                armed = W.armed
                W.armed = None
                probes["script_runs"] = probes.get("script_runs", 0) + 1
                if rerr is not None:
                    viols.append({"clause": "import_failed", "sig": "run_path:" + type(rerr).__name__,
                                  "detail": {"op": oi, "suffix": sfx, "error": repr(rerr)[:300], "stderr": err.getvalue()[-400:]}})
                    break
                from_src = ("Compiling " + W.files[sname]) in err.getvalue()
                if st["pyc_valid"] and from_src:
                    viols.append({"clause": "load_path", "sig": "script:valid_pyc_not_used", "detail": {"op": oi, "suffix": sfx}})
                if not st["pyc_valid"] and not from_src:
                    viols.append({"clause": "load_path", "sig": "script:stale_pyc_used", "detail": {"op": oi, "suffix": sfx}})
                if from_src:
                    st["pyc_valid"] = armed is None and not sys.dont_write_bytecode
                else:
                    probes["script_runs_from_cache"] = probes.get("script_runs_from_cache", 0) + 1
                got_c = [t for ph, t in log.events if ph == "compile"]
                got_r = [t for ph, t in log.events if ph == "run"]
                want_c = model.compile_log if from_src else []
                if got_c != want_c:
                    viols.append({"clause": "compile_time_effects", "sig": "script:" + ("source" if from_src else "cache"),
                                  "detail": {"op": oi, "suffix": sfx, "got": got_c, "expected": want_c, "text": model.text()[:1200]}})
                if got_r != model.run_log:
                    viols.append({"clause": "run_time_effects", "sig": "script:" + ("source" if from_src else "cache"),
                                  "detail": {"op": oi, "suffix": sfx, "got": got_r, "expected": model.run_log, "text": model.text()[:1200]}})
                gotv = {k: ns.get(k, "<missing>") for k in model.values}
                if {k: repr(v) for k, v in gotv.items()} != {k: repr(v) for k, v in model.values.items()}:
                    viols.append({"clause": "values", "sig": "script", "detail": {"op": oi, "got": repr(gotv)[:300], "expected": repr(model.values)[:300]}})
                events.append([oi, "run_path", sfx, "source" if from_src else "cache", len(got_c), len(got_r)])
                seq.append(("run_path", sfx, from_src))
            elif kind == "zip_import":
                import importlib
                import zipfile
                import zipimport
                what = op["what"] if pyc_valid else "src"
                zdir = os.path.join(W.root, "_zips")
                os.makedirs(zdir, exist_ok=True)
                zpath = os.path.join(zdir, "a%d.zip" % oi)
                with zipfile.ZipFile(zpath, "w") as z:
                    if what in ("both", "src"):
                        z.writestr(name + ".hy", model.text())
                    if what in ("both", "pyc"):
                        with open(W.pyc(name), "rb") as f:
                            z.writestr(name + ".pyc", f.read())
                W.restart()
                del log.events[:]
                real_cs = zipimport._compile_source

                def bracket(*a, **k):
                    W.phase.append(name)
                    try:
                        return real_cs(*a, **k)
                    finally:
                        W.phase.pop()

                zipimport._compile_source = bracket
                sys.path.insert(0, zpath)
                try:
                    importlib.invalidate_caches()
                    try:
                        zmod = importlib.import_module(name)
                        zerr = None
                    except BaseException as e:
                        zmod, zerr = None, e
                finally:
                    zipimport._compile_source = real_cs
                    sys.path.remove(zpath)
                    sys.path_importer_cache.pop(zpath, None)
                    zipimport._zip_directory_cache.pop(zpath, None)
                probes["zip_imports"] = probes.get("zip_imports", 0) + 1
                if zerr is not None or not str(getattr(zmod, "__file__", "")).startswith(zpath):
                    viols.append({"clause": "import_failed", "sig": "zip:" + what,
                                  "detail": {"op": oi, "error": repr(zerr)[:300], "file": str(getattr(zmod, "__file__", None))}})
                    W.restart()
                    break
                got_c = [t for ph, t in log.events if ph == "compile"]
                got_r = [t for ph, t in log.events if ph == "run"]
                if what == "src":
                    # CPython's zipimport asks for the code of a source-only entry twice (get_filename, then get_code):
                    # one or two complete compile passes are both accepted here, never a partial or reordered one
                    ok_c = got_c in (model.compile_log, model.compile_log * 2)
                else:
                    ok_c = got_c == []
                if not ok_c:
                    viols.append({"clause": "compile_time_effects", "sig": "zip:" + what,
                                  "detail": {"op": oi, "archive": what, "got": got_c,
                                             "expected": model.compile_log if what == "src" else [], "text": model.text()[:1200]}})
                if got_r != model.run_log:
                    viols.append({"clause": "run_time_effects", "sig": "zip:" + what,
                                  "detail": {"op": oi, "archive": what, "got": got_r, "expected": model.run_log, "text": model.text()[:1200]}})
                gotv = {k: getattr(zmod, k, "<missing>") for k in model.values}
                if {k: repr(v) for k, v in gotv.items()} != {k: repr(v) for k, v in model.values.items()}:
                    viols.append({"clause": "values", "sig": "zip:" + what, "detail": {"op": oi, "got": repr(gotv)[:300], "expected": repr(model.values)[:300]}})
                mod = zmod
                loaded_model = model
                events.append([oi, "zip_import", what, len(got_c), len(got_r)])
                seq.append(("zip_import", what))
            elif kind == "call":
                if mod is None or not model.fns:
                    continue
                fn = loaded_model.fns[op["fn"] % len(loaded_model.fns)]
                del log.events[:]
                probes["function_calls"] += 1
                try:
                    v = getattr(mod, fn["name"])()
                except BaseException as e:
                    v = "<%s: %s>" % (type(e).__name__, str(e)[:80])
                got = [[ph, t] for ph, t in log.events]
                want = [["run", t] for t in fn["run_log"]]
                if got != want or (fn["value"] != UNCHECKED and repr(v) != repr(fn["value"])):
                    viols.append({"clause": "function_call", "sig": "effects" if got != want else "value",
                                  "detail": {"op": oi, "fn": fn["name"], "got": got, "expected": want, "value": repr(v)[:100],
                                             "expected_value": repr(fn["value"]), "text": loaded_model.text()[:1200]}})
                events.append([oi, "call", fn["name"], len(got)])
                seq.append(("call",))
            elif kind == "touch":
                W.touch(name)
                pyc_valid = False
                faults["source_touched"] += 1
                events.append([oi, "touch"])
                seq.append(("touch",))
            elif kind == "edit":
                ver += 1
                model = Model(desc, ver)
                W.write(name, model.text())
                pyc_valid = False
                faults["source_edited"] += 1
                events.append([oi, "edit", ver])
                seq.append(("edit",))
            elif kind == "rm_pyc":
                if W.delete_pyc(name):
                    faults["pyc_deleted"] += 1
                    pyc_valid = False
                    fault_pending = True
                events.append([oi, kind])
                seq.append((kind,))
            elif kind == "trunc_pyc":
                if W.truncate_pyc(name, op["n"]):
                    faults["pyc_header_truncated"] += 1
                    pyc_valid = False
                    fault_pending = True
                events.append([oi, kind, op["n"]])
                seq.append((kind,))
            elif kind == "arm":
                W.armed = op["fault"]
                faults["bytecode_write_fault"] += 1
                fault_pending = True
                events.append([oi, kind, op["fault"]])
                seq.append((kind, op["fault"]))
            elif kind == "dwb":
                sys.dont_write_bytecode = bool(op["on"])
                if op["on"]:
                    faults["dont_write_bytecode"] += 1
                events.append([oi, kind, op["on"]])
                seq.append((kind, op["on"]))
        sim_seconds = W.clock - W.start_clock
    finally:
        log.world = None
        W.close()
    uniq = {}
    for v in viols:
        uniq.setdefault((v["clause"], v["sig"]), v)

    def shape(f):
        return (f["kind"], f.get("n"), f.get("bind")) if f["kind"] != "defn" else ("defn", tuple(shape(b) for b in f["body"]))

    sigs = [kernel.digest([[shape(f) for f in desc["forms"]], seq])] if len(paths) == 2 else []
    return {"events": events, "violations": list(uniq.values())[:5], "faults": faults, "probes": probes, "sigs": sigs,
            "steps": len(desc["ops"]), "sim_seconds": sim_seconds}


# ------------------------------------------------------------------ shrinking


def shrink(desc):
    forms, ops = desc["forms"], desc["ops"]
    for i in range(len(ops)):
        if len(ops) > 1:
            yield dict(desc, ops=ops[:i] + ops[i + 1:])
    for i in range(len(forms)):
        if len(forms) > 1 and forms[i]["kind"] != "defn":
            yield dict(desc, forms=forms[:i] + forms[i + 1:])
    for i, f in enumerate(forms):
        if f["kind"] == "defn":
            if not any(o["op"] == "call" for o in ops) and len(forms) > 1:
                yield dict(desc, forms=forms[:i] + forms[i + 1:])
            for j in range(len(f["body"])):
                if len(f["body"]) > 1:
                    yield dict(desc, forms=forms[:i] + [dict(f, body=f["body"][:j] + f["body"][j + 1:])] + forms[i + 1:])
        elif f.get("n", 1) > 1:
            yield dict(desc, forms=forms[:i] + [dict(f, n=1)] + forms[i + 1:])
