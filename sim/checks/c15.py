"""C15 -- loading a Hy module from cached bytecode behaves like compiling it.

A run is a history over a scratch module world (engine `world`): macro libraries
and clients that `require` them in every documented shape, then source imports,
cached imports after "restarts", touches and edits under a simulated mtime clock,
pyc deletion, pyc header truncation, -B (dont_write_bytecode), and bytecode-write
faults (disk full, read-only, crash between write and rename).  After every
import the module values, the module's macro / reader-macro tables and the result
of expanding every required macro must equal what the generator knows by
construction; the load path each module took (source or cache) must be the one
the pyc state implies -- in particular a clean source import must leave a pyc
that the next import really uses.  A second kind of run checks the extension
rule (.hy, none, .txt, .hyx are Hy; .py is Python) through the loader,
py_compile (with -O levels) and runhy.run_path.
"""
import contextlib
import importlib
import io
import marshal
import os
import py_compile
import sys
import types

from sim.engines.world import World

PROPERTY = "C15"
LEVEL = "exploration"
ISOLATE = False
RUN_TIMEOUT = 300.0
RULE = ("one run = a world of 1-2 macro libraries and 1-2 clients plus a history of 5-12 ops (import after restart, touch, "
        "edit, delete pyc, truncate pyc header, arm a bytecode-write fault, toggle dont_write_bytecode); or an "
        "extension-rule run. Non-trivial = a world in which the same client was loaded both from source and from cache; "
        "distinct = distinct (require shapes, op sequence, load paths) digests")
REAL = ["hy importer (HyLoader, source_to_code patch), hy compiler incl. compile_require, hy.macros.require / "
        "require_reader at run time, CPython importlib (finders, SourceLoader.get_code, pyc validation), the filesystem"]
STUB = ["process restart (sys.modules purge + finder cache invalidation; validated against real subprocesses in the "
        "thorough tier)", "importlib._bootstrap_external._write_atomic (fault shim)", "file mtimes (simulated clock)"]
ASSUMPTIONS = ["pyc body corruption and same-mtime-same-size edits are CPython limitations and not generated",
               "every source file of a world has a unique stem"]

_S = {}


def setup_worker():
    if _S:
        return
    import hy
    import hy.macros
    _S["hy"] = hy
    _S["n"] = 0


def plan(tier):
    if tier == "thorough":
        return {"runs": 6000, "budget_s": 1500, "chunk": 10, "recheck": 8, "shrink_s": 150}
    return {"runs": 320, "budget_s": 200, "chunk": 4, "recheck": 4, "shrink_s": 60}


# ------------------------------------------------------------------ generation

MACRO_NAMES = [["a1", "a-two", "_apriv", "a4"], ["b1", "b-two", "_bpriv", "b4"]]


def mangle(n):
    return n.replace("-", "_")


def gen_lib(rng, i):
    names = MACRO_NAMES[i]
    macros = []
    for n in names:
        if rng.random() < 0.8 or not macros:
            macros.append({"name": n, "kind": rng.choice(["const", "arg"])})
    exports = None
    if rng.random() < 0.35:
        pool = [m["name"] for m in macros]
        exports = rng.sample(pool, rng.randint(1, len(pool)))
    readers = [f"r{i}x"] if rng.random() < 0.5 else []
    if readers and rng.random() < 0.4:
        readers.append(f"r{i}y")
    return {"macros": macros, "exports": exports, "readers": readers, "ver": 1}


def gen_client(rng, j, libs):
    reqs = []
    for li, lib in enumerate(libs):
        if rng.random() < 0.25 and reqs:
            continue
        shape = rng.choice(["bare", "as", "list", "star", "list", "as"])
        r = {"lib": li, "shape": shape}
        if shape == "as":
            r["alias"] = rng.choice(["L", "Lib-x", "q"]) + str(li)
        if shape == "list":
            pool = [m["name"] for m in lib["macros"]]
            chosen = rng.sample(pool, rng.randint(1, len(pool)))
            r["names"] = [[n, (rng.choice(["al-", "z"]) + n.strip("_")) if rng.random() < 0.4 else None] for n in chosen]
            if rng.random() < 0.35:
                # the same macro again under another alias
                n = rng.choice(chosen)
                r["names"].insert(rng.randrange(len(r["names"]) + 1), [n, "dup-" + n.strip("_")])
                if rng.random() < 0.4:
                    r["names"].append([n, "dup2-" + n.strip("_")])
        if lib["readers"] and rng.random() < 0.6:
            r["readers"] = rng.choice(["*", lib["readers"][:1], lib["readers"]])
        reqs.append(r)
    return {"requires": reqs, "own_macro": rng.random() < 0.3, "ver": 1, "in_fn": rng.random() < 0.5,
            "local_require": rng.random() < 0.25,
            # the module's first form imports hy itself under some name (the bytecode still has to bind `hy` for the
            # run-time require calls)
            "hy_first": rng.choice([None, None, None, "(import hy :as hylang)", "(import hy.models :as HM)", "(import hy)",
                                    "(import hy.models)", "(import hy.models [Symbol])"]),
            # ... or the module imports hy explicitly somewhere BELOW its requires
            "hy_later": rng.choice([None, None, None, "(import hy)", "(import hy :as hy2)", "(import hy.macros)"])}


def generate(rng, tier):
    if rng.random() < 0.12:
        return {"kind": "ext", "exts": rng.sample([".hy", "", ".txt", ".hyx", ".py", ".data", ".PY", ".Py", ".hY", ".py3", ".pyx"], 5),
                "opt": rng.choice([0, 0, 1, 2]), "val": rng.randrange(1000),
                # configuration: a Python source suffix registered after hy was imported
                "extra_suffix": rng.choice([None, None, ".pyw", ".pyi"])}
    if rng.random() < 0.14:
        return gen_pkg(rng)
    if rng.random() < 0.05:
        # a script reached through a symbolic link, with its macro library beside the LINK; run the way `hy FILE` runs
        # it (set_path + run_path), first from source, then from its cached bytecode
        return {"kind": "link", "runs": rng.choice([2, 3]), "val": rng.randrange(1000), "local": rng.random() < 0.5}
    libs = [gen_lib(rng, i) for i in range(rng.choice([1, 1, 2]))]
    clients = [gen_client(rng, j, libs) for j in range(rng.choice([1, 1, 2]))]
    mods = ["lib%d" % i for i in range(len(libs))] + ["cli%d" % j for j in range(len(clients))]
    ops = [{"op": "import", "client": 0}]
    for _ in range(rng.randrange(4, 12)):
        r = rng.random()
        if r < 0.42:
            ops.append({"op": "import", "client": rng.randrange(len(clients))})
        elif r < 0.52:
            ops.append({"op": "touch", "mod": rng.choice(mods)})
        elif r < 0.6:
            ops.append({"op": "edit", "mod": rng.choice(mods)})
        elif r < 0.64:
            ops.append({"op": rng.choice(["lib_add", "lib_add", "lib_remove", "lib_exports"]), "lib": rng.randrange(len(libs)),
                        "pick": rng.randrange(1000)})
        elif r < 0.72:
            ops.append({"op": "rm_pyc", "mod": rng.choice(mods)})
        elif r < 0.8:
            ops.append({"op": "trunc_pyc", "mod": rng.choice(mods), "n": rng.choice([0, 1, 4, 8, 12, 15])})
        elif r < 0.92:
            ops.append({"op": "arm", "fault": rng.choice(["enospc", "eacces", "crash_before_rename"])})
        else:
            ops.append({"op": "dwb", "on": rng.random() < 0.6})
    ops.append({"op": "import", "client": rng.randrange(len(clients))})
    ops.append({"op": "import", "client": rng.randrange(len(clients))})
    return {"kind": "world", "libs": libs, "clients": clients, "ops": ops, "subproc": tier == "thorough" and rng.random() < 0.04}


# ------------------------------------------------------------------ package worlds

PKG_FORMS = ["A", "B", "C", "D", "E", "F", "G", "R", "L"]
PKG_FILES = ["pkg.__init__", "pkg.sub", "pkg.other", "pkg.inner.__init__", "pkg.inner.deep", "pkg.twin", "cli"]


def gen_pkg(rng):
    """A package with a macro submodule, a sibling that requires it relatively, a nested subpackage, and a client outside
    the package that requires them in every shape (incl. the submodule fallback `(require pkg [sub :as s])`)."""
    forms = [f for f in PKG_FORMS if rng.random() < 0.6] or ["A"]
    rng.shuffle(forms)
    ops = [{"op": "import"}]
    for _ in range(rng.randrange(3, 9)):
        r = rng.random()
        if r < 0.5:
            ops.append({"op": "import"})
        elif r < 0.7:
            ops.append({"op": "edit", "file": rng.choice(PKG_FILES)})
        elif r < 0.8:
            ops.append({"op": "touch", "file": rng.choice(PKG_FILES)})
        elif r < 0.92:
            ops.append({"op": "rm_pyc", "file": rng.choice(PKG_FILES)})
        else:
            ops.append({"op": "dwb", "on": rng.random() < 0.5})
    ops += [{"op": "import"}, {"op": "import"}]
    return {"kind": "pkg", "forms": forms, "ops": ops, "first": rng.choice(["cli", "cli", "pkg.other", "pkg.inner.deep"])}


def pkg_texts(P, forms, stamps):
    t = {}
    t["pkg.__init__"] = f"(setv pkgval 1)\n(setv stamp {stamps['pkg.__init__']})\n"
    t["pkg.sub"] = ('(defmacro s1 [] "sub:s1")\n(defmacro s-two [x] `[~x "sub:s-two"])\n(defmacro _spriv [] "sub:_spriv")\n'
                    f'(defreader rs \'"sub:rs")\n(setv stamp {stamps["pkg.sub"]})\n')
    t["pkg.other"] = ('(require .sub [s1 :as rel1])\n(require .sub :as S)\n(defmacro o1 [] "other:o1")\n'
                      f'(setv oval [(rel1) (S.s-two 3) (o1)])\n(setv stamp {stamps["pkg.other"]})\n')
    # a relative require inside a package __init__, with a same-named module one level up AND one level down: whichever
    # of the two it means, it must mean the same when the package is loaded from bytecode
    t["pkg.inner.__init__"] = f"(require .twin [tw :as itw])\n(require .twin :as TW)\n(setv twv [(itw) (TW.tw)])\n(setv stamp {stamps['pkg.inner.__init__']})\n"
    t["pkg.twin"] = f'(defmacro tw [] "outer-twin")\n(defmacro only-outer [] 1)\n(setv stamp {stamps["pkg.twin"]})\n'
    t["pkg.inner.deep"] = (f'(require {P}pkg.sub [s1 :as up1 s-two])\n(require {P}pkg.sub :readers [rs])\n'
                           f'(setv dval [(up1) (s-two 9) #rs])\n(setv stamp {stamps["pkg.inner.deep"]})\n')
    c, vals, keys = [], [], set()
    for f in forms:
        if f == "A":
            c.append(f"(require {P}pkg [sub :as s])")
            vals += ["(s.s1)", "(s.s-two 1)"]
            keys |= {"s.s1", "s.s_two", "s._spriv"}
        elif f == "B":
            c.append(f"(require {P}pkg.sub [s1 s-two :as t2])")
            vals += ["(s1)", "(t2 2)"]
            keys |= {"s1", "t2"}
        elif f == "C":
            c.append(f"(require {P}pkg.sub :as ps)")
            vals += ["(ps.s-two 3)"]
            keys |= {"ps.s1", "ps.s_two"}
        elif f == "D":
            c.append(f"(require {P}pkg.sub)")
            vals += [f"({P}pkg.sub.s1)"]
            keys |= {f"{P}pkg.sub.s1", f"{P}pkg.sub.s_two"}
        elif f == "E":
            c.append(f"(require {P}pkg.other *)")
            vals += ["(o1)", "(rel1)", "(S.s-two 4)"]
            keys |= {"o1", "rel1", "S.s1", "S.s_two"}
        elif f == "F":
            c.append(f"(require {P}pkg.inner.deep :as D)")
            vals += ["(D.up1)", "(D.s-two 5)"]
            keys |= {"D.up1", "D.s_two"}
        elif f == "G":
            c.append(f"(require {P}pkg [sub :as s2 other :as oo])")
            vals += ["(s2.s1)", "(oo.o1)", "(oo.rel1)", "(oo.S.s-two 6)"]
            keys |= {"s2.s1", "s2.s_two", "s2._spriv", "oo.o1", "oo.rel1", "oo.S.s1", "oo.S.s_two"}
        elif f == "R":
            c.append(f"(require {P}pkg.sub :readers [rs])")
            vals += ["#rs"]
        elif f == "L":
            # (a function-local `(require pkg [sub :as loc])` -- the submodule fallback -- raises HyRequireError when the
            # function is called, from source and from cache alike; observed, outside C15, see DESIGN 8.8)
            c.append(f"(defn lf [] (require {P}pkg.sub :as loc) (require {P}pkg.sub [s-two :as l2]) [(loc.s1) (l2 7)])")
    c.append(f"(import {P}pkg.other [oval] {P}pkg.inner.deep [dval])")
    c.append("(setv v [" + " ".join(vals) + "])")
    c.append(f"(setv stamp {stamps['cli']})")
    t["cli"] = "\n".join(c) + "\n"
    return t, vals, keys


def pkg_value(form):
    """Value by construction of one client expression."""
    import re
    if form == "#rs":
        return "sub:rs"
    m = re.match(r"\((\S+?)(?: (\d+))?\)$", form)
    name, arg = m.group(1), m.group(2)
    last = name.split(".")[-1]
    src = "other" if last == "o1" else "sub"
    real = {"rel1": "s1", "up1": "s1", "t2": "s-two", "l2": "s-two"}.get(last, last)
    tagv = f"{src}:{real}"
    return [int(arg), tagv] if arg is not None else tagv


def execute_pkg(desc):
    from sim import kernel
    hy = _S["hy"]
    _S["n"] += 1
    P = "k%dx%d_" % (os.getpid() % 100000, _S["n"])
    W = World(P)
    events, viols = [], []
    faults = {"pyc_deleted": 0, "dont_write_bytecode": 0, "source_touched": 0, "source_edited": 0}
    probes = {"imports": 0, "modules_loaded_from_source": 0, "modules_loaded_from_cache": 0, "macro_expansion_probes": 0,
              "package_imports": 0, "package_client_from_cache": 0}
    stamps = {f: 1 for f in PKG_FILES}
    forms = desc["forms"]
    seq = []
    try:
        texts, vals, keys = pkg_texts(P, forms, stamps)
        for f in PKG_FILES:
            W.write(P + f, texts[f])
        W.write(P + "pkg.inner.twin", '(defmacro tw [] "inner-twin")\n(defmacro only-inner [] 2)\n')
        twin_baseline = None
        pyc_valid = {f: False for f in PKG_FILES}
        want_v = [pkg_value(x) for x in vals]
        want_exp = {}
        for k in keys:
            last = k.split(".")[-1]
            src = "other" if last == "o1" else "sub"
            real = {"rel1": "s1", "up1": "s1", "t2": "s_two", "l2": "s_two"}.get(last, last)
            tagv = f"{src}:{real.replace('s_two', 's-two')}"
            want_exp[k] = [5, tagv] if real == "s_two" else tagv
        first_done = False
        seen = set()
        for oi, op in enumerate(desc["ops"]):
            kind = op["op"]
            if kind == "import":
                W.restart()
                probes["imports"] += 1
                probes["package_imports"] += 1
                pre_compiled = []
                if not first_done and desc.get("first", "cli") != "cli":
                    # another entry point first: a package module is imported (and cached) before the client ever is
                    r0 = W.import_(P + desc["first"])
                    if isinstance(r0[0], BaseException):
                        viols.append({"clause": "import_failed", "sig": type(r0[0]).__name__, "detail": {"op": oi, "module": desc["first"], "error": repr(r0[0])[:300]}})
                        break
                    pre_compiled = list(W.last_compiled_paths)
                first_done = True
                res, _, out, err = W.import_(P + "cli")
                if isinstance(res, BaseException):
                    viols.append({"clause": "import_failed", "sig": type(res).__name__,
                                  "detail": {"op": oi, "error": repr(res)[:300], "stderr": err[-600:], "forms": forms}})
                    events.append([oi, "import", "FAILED", type(res).__name__])
                    break
                compiled_paths = set(pre_compiled) | set(W.last_compiled_paths)
                for f in PKG_FILES:
                    from_src = W.files[P + f] in compiled_paths
                    probes["modules_loaded_from_source" if from_src else "modules_loaded_from_cache"] += 1
                    if pyc_valid[f] and from_src:
                        viols.append({"clause": "load_path", "sig": "valid_pyc_not_used", "detail": {"op": oi, "file": f}})
                    if not pyc_valid[f] and not from_src:
                        viols.append({"clause": "load_path", "sig": "stale_pyc_used", "detail": {"op": oi, "file": f}})
                    if from_src:
                        pyc_valid[f] = not sys.dont_write_bytecode
                path = "source" if W.files[P + "cli"] in compiled_paths else "cache"
                seen.add(path)
                if path == "cache":
                    probes["package_client_from_cache"] += 1
                got_v = getattr(res, "v", "<missing>")
                if got_v != want_v:
                    viols.append({"clause": "module_values", "sig": "pkg:" + path,
                                  "detail": {"op": oi, "path": path, "forms": forms, "got": repr(got_v)[:400], "expected": repr(want_v)[:400]}})
                for attr, want in (("oval", ["sub:s1", [3, "sub:s-two"], "other:o1"]), ("dval", ["sub:s1", [9, "sub:s-two"], "sub:rs"])):
                    if getattr(res, attr, None) != want:
                        viols.append({"clause": "module_values", "sig": "pkg:" + path, "detail": {"op": oi, "attr": attr, "got": repr(getattr(res, attr, None))[:200]}})
                if "L" in forms:
                    try:
                        lv = res.lf()
                    except BaseException as e:
                        lv = "<%s: %s>" % (type(e).__name__, str(e)[:100])
                    if lv != ["sub:s1", [7, "sub:s-two"]]:
                        viols.append({"clause": "module_values", "sig": "pkg-local-require:" + path, "detail": {"op": oi, "got": repr(lv)[:300]}})
                have = sorted(getattr(res, "_hy_macros", {}).keys())
                if have != sorted(keys):
                    viols.append({"clause": "macro_table", "sig": "pkg:" + path,
                                  "detail": {"op": oi, "path": path, "forms": forms, "missing": sorted(keys - set(have)),
                                             "unexpected": sorted(set(have) - keys)}})
                for k in sorted(keys & set(have)):
                    probes["macro_expansion_probes"] += 1
                    call = "(%s 5)" % k if k.split(".")[-1] in ("s_two", "t2") else "(%s)" % k
                    try:
                        v = hy.eval(hy.read(call), module=res)
                    except BaseException as e:
                        v = "<%s: %s>" % (type(e).__name__, str(e)[:80])
                    if v != want_exp[k]:
                        viols.append({"clause": "required_macro_unavailable", "sig": "pkg:" + path,
                                      "detail": {"op": oi, "call": call, "got": repr(v)[:200], "expected": repr(want_exp[k])}})
                        break
                inner_mod = sys.modules.get(P + "pkg.inner")
                twin_obs = [getattr(inner_mod, "twv", "<missing>"), sorted(getattr(inner_mod, "_hy_macros", {}).keys())]
                for call_ in ("(itw)", "(TW.tw)"):
                    try:
                        twin_obs.append(hy.eval(hy.read(call_), module=inner_mod))
                    except BaseException as e:
                        twin_obs.append("<%s>" % type(e).__name__)
                init_path = "source" if W.files[P + "pkg.inner.__init__"] in compiled_paths else "cache"
                if twin_baseline is None:
                    twin_baseline = twin_obs
                elif twin_obs != twin_baseline:
                    viols.append({"clause": "module_values", "sig": "pkg-init-relative-require:" + init_path,
                                  "detail": {"op": oi, "path": init_path, "got": repr(twin_obs)[:200], "first_import_gave": repr(twin_baseline)[:200]}})
                want_r = ["rs"] if "R" in forms else []
                have_r = sorted(getattr(res, "_hy_reader_macros", {}).keys())
                if have_r != want_r:
                    viols.append({"clause": "reader_table", "sig": "pkg:" + path, "detail": {"op": oi, "got": have_r, "expected": want_r}})
                events.append([oi, "import", path, sorted(os.path.relpath(x, W.root)[len(P):] for x in compiled_paths)])
                seq.append(("import", path, len(compiled_paths)))
            elif kind in ("edit", "touch"):
                f = op["file"]
                if kind == "edit":
                    stamps[f] += 1
                    texts, _, _ = pkg_texts(P, forms, stamps)
                    W.write(P + f, texts[f])
                    faults["source_edited"] += 1
                else:
                    W.touch(P + f)
                    faults["source_touched"] += 1
                pyc_valid[f] = False
                events.append([oi, kind, f])
                seq.append((kind, f))
            elif kind == "rm_pyc":
                f = op["file"]
                if W.delete_pyc(P + f):
                    faults["pyc_deleted"] += 1
                    pyc_valid[f] = False
                events.append([oi, kind, f])
                seq.append((kind,))
            elif kind == "dwb":
                sys.dont_write_bytecode = bool(op["on"])
                if op["on"]:
                    faults["dont_write_bytecode"] += 1
                events.append([oi, kind, op["on"]])
                seq.append((kind, op["on"]))
        sim_seconds = W.clock - W.start_clock
    finally:
        W.close()
    uniq = {}
    for v in viols:
        uniq.setdefault((v["clause"], v["sig"]), v)
    sigs = [kernel.digest(["pkg", sorted(forms), seq])] if seen == {"source", "cache"} else []
    return {"events": events, "violations": list(uniq.values())[:5], "faults": faults, "probes": probes, "sigs": sigs,
            "steps": len(desc["ops"]), "sim_seconds": sim_seconds}


# ------------------------------------------------------------------ module texts and expectations


def lib_text(tag, i, lib):
    out = []
    for m in lib["macros"]:
        if m["kind"] == "const":
            out.append(f'(defmacro {m["name"]} [] "lib{i}:{m["name"]}:v{lib["ver"]}")')
        else:
            out.append(f'(defmacro {m["name"]} [x] `[~x "lib{i}:{m["name"]}:v{lib["ver"]}"])')
    if lib["exports"] is not None:
        out.append("(setv _hy_export_macros [" + " ".join('"%s"' % mangle(n) for n in lib["exports"]) + "])")
    for r in lib["readers"]:
        out.append(f'(defreader {r} \'"lib{i}:{r}:v{lib["ver"]}")')
    out.append(f'(setv libval {lib["ver"]})')
    return "\n".join(out) + "\n"


def macro_value(i, lib, name, ver, arg=None):
    """lib: a lib spec, or a frozen {(lib index, macro name): kind} map."""
    kind = lib[(i, name)] if "macros" not in lib else [m for m in lib["macros"] if m["name"] == name][0]["kind"]
    s = f"lib{i}:{name}:v{ver}"
    return s if kind == "const" else [arg, s]


def exported(lib):
    if lib["exports"] is not None:
        return [n for n in [m["name"] for m in lib["macros"]] if n in lib["exports"]]
    return [m["name"] for m in lib["macros"] if not m["name"].startswith("_")]


def client_macros(tag, desc, cl):
    """[(call name as written in Hy, lib index, macro name)] for every macro the client's requires bring in."""
    out = []
    for r in cl["requires"]:
        lib = desc["libs"][r["lib"]]
        lname = f"{tag}lib{r['lib']}"
        if r["shape"] == "bare":
            out += [(f"{lname}.{n}", r["lib"], n) for n in exported(lib)]
        elif r["shape"] == "as":
            out += [(f"{r['alias']}.{n}", r["lib"], n) for n in exported(lib)]
        elif r["shape"] == "star":
            out += [(n, r["lib"], n) for n in exported(lib)]
        else:
            out += [((al or n), r["lib"], n) for n, al in r["names"]]
    return out


def client_readers(tag, desc, cl):
    out = []
    for r in cl["requires"]:
        if r.get("readers"):
            lib = desc["libs"][r["lib"]]
            names = lib["readers"] if r["readers"] == "*" else r["readers"]
            out += [(n, r["lib"]) for n in names]
    return out


def client_text(tag, desc, j, cl):
    out = []
    if cl.get("hy_first"):
        out.append(cl["hy_first"])
    for r in cl["requires"]:
        lname = f"{tag}lib{r['lib']}"
        if r["shape"] == "bare":
            spec = ""
        elif r["shape"] == "as":
            spec = f" :as {r['alias']}"
        elif r["shape"] == "star":
            spec = " *"
        else:
            spec = " [" + " ".join(n if al is None else f"{n} :as {al}" for n, al in r["names"]) + "]"
        rd = ""
        if r.get("readers"):
            rd = " :readers " + ("*" if r["readers"] == "*" else "[" + " ".join(r["readers"]) + "]")
        if spec and rd and r["shape"] != "bare":
            spec = " :macros" + spec
        if r["shape"] == "bare" and rd:
            # `(require m :readers [...])` alone does not bring in the macros: ask for both
            out.append(f"(require {lname}\n         {lname}{rd})")
        else:
            out.append(f"(require {lname}{spec}{rd})")
    if cl.get("hy_later"):
        out.append(cl["hy_later"])
    k = 0
    cl["_uses"] = list(client_macros(tag, desc, cl))
    cl["_ruses"] = list(client_readers(tag, desc, cl))
    for call, li, n in cl["_uses"]:
        lib = desc["libs"][li]
        m = [m for m in lib["macros"] if m["name"] == n][0]
        form = f"({call})" if m["kind"] == "const" else f"({call} {k})"
        if cl["in_fn"] and k % 2:
            out.append(f"(defn f{k} [] {form})")
        else:
            out.append(f"(setv u{k} {form})")
        k += 1
    for q, (rn, li) in enumerate(cl["_ruses"]):
        out.append(f"(setv rd{q} #{rn})")
    if cl["own_macro"]:
        out.append(f'(defmacro own{j} [] "cli{j}:own:v{cl["ver"]}")')
        out.append(f"(setv ownval (own{j}))")
    cl["_local"] = None
    cl["_local_all"] = []
    if cl["local_require"] and cl["requires"]:
        r = cl["requires"][0]
        lib = desc["libs"][r["lib"]]
        n = exported(lib)
        if n:
            m = [m for m in lib["macros"] if m["name"] == n[0]][0]
            form = f"(loc.{n[0]})" if m["kind"] == "const" else f"(loc.{n[0]} 77)"
            out.append(f"(defn localreq [] (require {tag}lib{r['lib']} :as loc) {form})")
            cl["_local"] = [r["lib"], n[0]]
            # a local require compiles to a run-time require of exactly the names resolved at compile time
            cl["_local_all"] = list(n)
    out.append(f'(setv plain {cl["ver"] * 7})')
    cl["_textver"] = cl["ver"]
    cl["_kinds"] = {(li, m["name"]): m["kind"] for li, lib in enumerate(desc["libs"]) for m in lib["macros"]}
    return "\n".join(out) + "\n"


def expected_client_values(tag, desc, cl, libvers):
    """libvers: version of each lib at the time this client was compiled."""
    vals = {}
    k = 0
    for call, li, n in cl["_uses"]:
        v = macro_value(li, cl["_kinds"], n, libvers[li], k)
        vals[("f%d()" if (cl["in_fn"] and k % 2) else "u%d") % k] = v
        k += 1
    for q, (rn, li) in enumerate(cl["_ruses"]):
        vals["rd%d" % q] = f"lib{li}:{rn}:v{libvers[li]}"
    if cl["own_macro"]:
        # (identity, not equality: two clients of a world may have equal specs)
        vals["ownval"] = f"cli{[i for i, c in enumerate(desc['clients']) if c is cl][0]}:own:v{cl['_textver']}"
    if cl.get("_local"):
        li, n = cl["_local"]
        vals["localreq()"] = macro_value(li, cl["_kinds"], n, libvers[li], 77)
    vals["plain"] = cl["_textver"] * 7
    return vals


# ------------------------------------------------------------------ execution


def observe_client(hy, mod, tag, desc, cl):
    vals = {}
    for name in list(vars(mod)):
        pass
    obs = {}
    k = 0
    def get(key):
        try:
            if key.endswith("()"):
                return getattr(mod, key[:-2])()
            return getattr(mod, key)
        except BaseException as e:
            return "<%s>" % type(e).__name__
    return get


def execute(desc):
    setup_worker()
    if desc["kind"] == "ext":
        return execute_ext(desc)
    if desc["kind"] == "pkg":
        return execute_pkg(desc)
    if desc["kind"] == "link":
        return execute_link(desc)
    from sim import kernel
    hy = _S["hy"]
    _S["n"] += 1
    tag = "w%dx%d_" % (os.getpid() % 100000, _S["n"])
    W = World(tag)
    events, viols = [], []
    faults = {"bytecode_write_enospc": 0, "bytecode_write_eacces": 0, "crash_between_write_and_rename": 0,
              "pyc_deleted": 0, "pyc_header_truncated": 0, "dont_write_bytecode": 0, "source_touched": 0, "source_edited": 0}
    probes = {"imports": 0, "modules_loaded_from_source": 0, "modules_loaded_from_cache": 0, "macro_expansion_probes": 0,
              "reader_probes": 0, "imports_after_fault": 0, "subprocess_cross_checks": 0}
    seq = []
    try:
        nl = len(desc["libs"])
        names = {("lib", i): f"{tag}lib{i}" for i in range(nl)}
        names.update({("cli", j): f"{tag}cli{j}" for j in range(len(desc["clients"]))})
        libs = [dict(l) for l in desc["libs"]]
        clients = [dict(c) for c in desc["clients"]]
        d2 = dict(desc, libs=libs, clients=clients)

        def write_all(which=None):
            for i, lib in enumerate(libs):
                if which in (None, ("lib", i)):
                    W.write(names[("lib", i)], lib_text(tag, i, lib))
            for j, cl in enumerate(clients):
                if which in (None, ("cli", j)):
                    W.write(names[("cli", j)], client_text(tag, d2, j, cl))

        write_all()
        pyc_valid = {k: False for k in names}
        compiled_against = {}      # client index -> lib versions at its last compile
        fault_pending = False
        both_paths = set()
        seen_source, seen_cache = set(), set()

        def modkey(s):
            return ("lib", int(s[3:])) if s.startswith("lib") else ("cli", int(s[3:]))

        for oi, op in enumerate(desc["ops"]):
            kind = op["op"]
            if kind == "import":
                j = op["client"]
                cl = clients[j]
                W.restart()
                probes["imports"] += 1
                if fault_pending:
                    probes["imports_after_fault"] += 1
                res, compiled, out, err = W.import_(names[("cli", j)])
                armed = W.armed
                W.armed = None
                if isinstance(res, BaseException):
                    viols.append({"clause": "import_failed", "sig": type(res).__name__,
                                  "detail": {"op": oi, "error": repr(res)[:300], "stderr": err[-500:], "after_fault": fault_pending}})
                    events.append([oi, "import", j, "FAILED", type(res).__name__])
                    break
                loaded = [("cli", j)] + sorted({("lib", r["lib"]) for r in cl["requires"]})
                compiled_keys = {k for k in names if names[k] in compiled}
                # (3) load path: valid pyc => cache; invalid => source
                for k in loaded:
                    from_src = k in compiled_keys
                    probes["modules_loaded_from_source" if from_src else "modules_loaded_from_cache"] += 1
                    if pyc_valid[k] and from_src:
                        viols.append({"clause": "load_path", "sig": "valid_pyc_not_used",
                                      "detail": {"op": oi, "module": k, "why": "a clean source import wrote no usable pyc (module recompiled although "
                                                 "source and cache were untouched)"}})
                    if not pyc_valid[k] and not from_src:
                        viols.append({"clause": "load_path", "sig": "stale_pyc_used", "detail": {"op": oi, "module": k}})
                    if k[0] == "cli":
                        (seen_source if from_src else seen_cache).add(k)
                    if from_src:
                        if k[0] == "cli":
                            compiled_against[k[1]] = [l["ver"] for l in libs]
                            c_ = clients[k[1]]
                            if c_.get("_local"):
                                # a local require is resolved when the client is COMPILED (also after a mere touch or a
                                # lost pyc): the names its run-time call asks for are the library's exports as of now
                                c_["_local_all"] = list(exported(libs[c_["_local"][0]]))
                        pyc_valid[k] = (armed is None) and not sys.dont_write_bytecode
                        if pyc_valid[k] and not W.pyc_exists(names[k]):
                            viols.append({"clause": "pyc_written", "sig": "missing_after_source_import", "detail": {"op": oi, "module": k}})
                if j not in compiled_against:
                    compiled_against[j] = [l["ver"] for l in libs]
                # (1) values
                exp = expected_client_values(tag, d2, cl, compiled_against.get(j, [l["ver"] for l in libs]))
                got = {}
                for key in exp:
                    try:
                        got[key] = getattr(res, key[:-2])() if key.endswith("()") else getattr(res, key)
                    except BaseException as e:
                        got[key] = "<%s: %s>" % (type(e).__name__, str(e)[:80])
                path = "source" if ("cli", j) in compiled_keys else "cache"
                if got != exp:
                    bad = {k: [got[k], exp[k]] for k in exp if got[k] != exp[k]}
                    viols.append({"clause": "module_values", "sig": path,
                                  "detail": {"op": oi, "client": j, "path": path, "got_vs_expected": repr(bad)[:600]}})
                # (2) macro tables and availability of every required macro
                want_keys = sorted({hy.mangle(c) for c, _, _ in client_macros(tag, d2, cl)} |
                                   ({hy.mangle("own%d" % j)} if cl["own_macro"] else set()))
                have_keys = sorted(getattr(res, "_hy_macros", {}).keys())
                if have_keys != want_keys:
                    viols.append({"clause": "macro_table", "sig": path,
                                  "detail": {"op": oi, "client": j, "path": path, "missing": sorted(set(want_keys) - set(have_keys)),
                                             "unexpected": sorted(set(have_keys) - set(want_keys)),
                                             "requires": cl["requires"], "exports": [l["exports"] for l in libs]}})
                want_r = sorted({rn for rn, _ in client_readers(tag, d2, cl)})
                have_r = sorted(getattr(res, "_hy_reader_macros", {}).keys())
                if have_r != want_r:
                    viols.append({"clause": "reader_table", "sig": path,
                                  "detail": {"op": oi, "client": j, "path": path, "got": have_r, "expected": want_r}})
                k2 = 0
                for call, li, n in client_macros(tag, d2, cl):
                    m = [m for m in libs[li]["macros"] if m["name"] == n][0]
                    form = f"({call})" if m["kind"] == "const" else f"({call} 5)"
                    probes["macro_expansion_probes"] += 1
                    try:
                        v = hy.eval(hy.read(form), module=res)
                    except BaseException as e:
                        v = "<%s: %s>" % (type(e).__name__, str(e)[:80])
                    w = macro_value(li, libs[li], n, libs[li]["ver"], 5)
                    if v != w:
                        viols.append({"clause": "required_macro_unavailable", "sig": path,
                                      "detail": {"op": oi, "client": j, "path": path, "call": form, "got": repr(v)[:200], "expected": repr(w)[:200]}})
                        break
                for rn, li in client_readers(tag, d2, cl):
                    probes["reader_probes"] += 1
                    try:
                        rd = hy.HyReader()
                        hy.macros.enable_readers(res, rd, "ALL")
                        v = hy.eval(hy.read("#" + rn, reader=rd), module=res)
                    except BaseException as e:
                        v = "<%s: %s>" % (type(e).__name__, str(e)[:80])
                    if v != f"lib{li}:{rn}:v{libs[li]['ver']}":
                        viols.append({"clause": "required_reader_unavailable", "sig": path,
                                      "detail": {"op": oi, "client": j, "path": path, "reader": rn, "got": repr(v)[:200]}})
                        break
                events.append([oi, "import", j, path, sorted(names[k][len(tag):] for k in compiled_keys)])
                seq.append(("import", path, tuple(sorted(k[0] for k in compiled_keys))))
                fault_pending = False
                if desc.get("subproc"):
                    sub = subprocess_import(W, names[("cli", j)], sorted(exp))
                    probes["subprocess_cross_checks"] += 1
                    if sub != {k: repr(exp[k]) for k in sorted(exp)}:
                        viols.append({"clause": "restart_stub_vs_real_process", "sig": "stub",
                                      "detail": {"op": oi, "subprocess": sub, "expected": {k: repr(exp[k]) for k in sorted(exp)}}})
                    # the subprocess may have (re)written pycs exactly like a source import would
                    for k in loaded:
                        if not pyc_valid[k]:
                            pyc_valid[k] = W.pyc_exists(names[k]) and _pyc_fresh(W, names[k])
            elif kind in ("touch", "edit"):
                k = modkey(op["mod"])
                if k not in names:
                    continue
                if kind == "touch":
                    W.touch(names[k])
                    faults["source_touched"] += 1
                else:
                    (libs if k[0] == "lib" else clients)[k[1]]["ver"] += 1
                    write_all(k)
                    faults["source_edited"] += 1
                pyc_valid[k] = False
                events.append([oi, kind, op["mod"]])
                seq.append((kind, op["mod"][:3]))
            elif kind in ("lib_add", "lib_remove", "lib_exports"):
                li = op["lib"] % len(libs)
                lib = libs[li]
                used = {n for c in clients for (_, l2, n) in c.get("_uses", []) if l2 == li}
                used |= {n for c in clients for r in c["requires"] if r["lib"] == li for n, _ in r.get("names", [])}
                used |= {n for c in clients if c.get("_local") and c["_local"][0] == li for n in c.get("_local_all", [])}
                changed = False
                if kind == "lib_add":
                    nm = "%snew%d" % ("ab"[li], lib["ver"] + len(lib["macros"]))
                    if op["pick"] % 3 == 0:
                        nm = "_" + nm
                    lib["macros"] = lib["macros"] + [{"name": nm, "kind": "const"}]
                    if lib["exports"] is not None and op["pick"] % 2:
                        lib["exports"] = lib["exports"] + [nm]
                    changed = True
                elif kind == "lib_remove":
                    removable = [m for m in lib["macros"] if m["name"] not in used]
                    if removable and len(lib["macros"]) > 1:
                        victim = removable[op["pick"] % len(removable)]
                        lib["macros"] = [m for m in lib["macros"] if m is not victim]
                        if lib["exports"] is not None:
                            lib["exports"] = [n for n in lib["exports"] if n != victim["name"]] or None
                        changed = True
                else:
                    allnames = [m["name"] for m in lib["macros"]]
                    if lib["exports"] is None:
                        # explicit list: everything the clients use stays exported; unused ones may be hidden, private ones shown
                        keep = [n for n in allnames if n in used and not n.startswith("_")]
                        extra = [n for n in allnames if n not in keep and (op["pick"] >> (allnames.index(n) % 8)) & 1]
                        lib["exports"] = keep + extra or allnames[:1]
                        changed = True
                    elif not [n for n in used if n.startswith("_")]:
                        lib["exports"] = None   # would hide a private macro the clients' texts use otherwise
                        changed = True
                if changed:
                    lib["ver"] += 1
                    W.write(names[("lib", li)], lib_text(tag, li, lib))
                    pyc_valid[("lib", li)] = False
                    faults["source_edited"] += 1
                    probes["structural_lib_edits"] = probes.get("structural_lib_edits", 0) + 1
                events.append([oi, kind, li, changed])
                seq.append((kind, changed))
            elif kind == "rm_pyc":
                k = modkey(op["mod"])
                if k in names and W.delete_pyc(names[k]):
                    faults["pyc_deleted"] += 1
                    pyc_valid[k] = False
                    fault_pending = True
                events.append([oi, kind, op["mod"]])
                seq.append((kind,))
            elif kind == "trunc_pyc":
                k = modkey(op["mod"])
                if k in names and W.truncate_pyc(names[k], op["n"]):
                    faults["pyc_header_truncated"] += 1
                    pyc_valid[k] = False
                    fault_pending = True
                events.append([oi, kind, op["mod"], op["n"]])
                seq.append((kind,))
            elif kind == "arm":
                W.armed = op["fault"]
                faults[{"enospc": "bytecode_write_enospc", "eacces": "bytecode_write_eacces",
                        "crash_before_rename": "crash_between_write_and_rename"}[op["fault"]]] += 1
                fault_pending = True
                events.append([oi, kind, op["fault"]])
                seq.append((kind, op["fault"]))
            elif kind == "dwb":
                sys.dont_write_bytecode = bool(op["on"])
                if op["on"]:
                    faults["dont_write_bytecode"] += 1
                events.append([oi, kind, op["on"]])
                seq.append((kind, op["on"]))
        both_paths = seen_source & seen_cache
        sim_seconds = W.clock - W.start_clock
    finally:
        W.close()
    uniq = {}
    for v in viols:
        uniq.setdefault((v["clause"], v["sig"]), v)
    shapes = tuple(tuple((r["shape"], bool(r.get("readers"))) for r in c["requires"]) for c in desc["clients"])
    sigs = [kernel.digest([shapes, seq])] if both_paths else []
    return {"events": events, "violations": list(uniq.values())[:5], "faults": faults, "probes": probes, "sigs": sigs,
            "steps": len(desc["ops"]), "sim_seconds": sim_seconds}


def _pyc_fresh(W, name):
    try:
        with open(W.pyc(name), "rb") as f:
            head = f.read(16)
        st = os.stat(W.files[name])
        return len(head) == 16 and int.from_bytes(head[8:12], "little") == int(st.st_mtime) & 0xFFFFFFFF
    except OSError:
        return False


def subprocess_import(W, modname, keys):
    """The same import in a REAL fresh interpreter (validates the restart stub)."""
    import json
    import subprocess
    from sim import kernel
    code = ("import sys, json, importlib\nsys.path.insert(0, %r)\nimport hy\nm = importlib.import_module(%r)\nout = {}\n"
            "for k in %r:\n    try:\n        out[k] = repr(getattr(m, k[:-2])() if k.endswith('()') else getattr(m, k))\n"
            "    except BaseException as e:\n        out[k] = '<%%s>' %% type(e).__name__\nprint(json.dumps(out))\n") % (W.root, modname, keys)
    env = kernel.fresh_env()
    env.pop("HY_MESSAGE_WHEN_COMPILING", None)
    if sys.dont_write_bytecode:
        env["PYTHONDONTWRITEBYTECODE"] = "1"
    p = subprocess.run([kernel.PYTHON, "-c", code], env=env, capture_output=True, text=True, timeout=120)
    if p.returncode != 0:
        return {"error": p.stderr[-400:]}
    return json.loads(p.stdout.strip().splitlines()[-1])


# ------------------------------------------------------------------ symlinked script


def execute_link(desc):
    from sim import kernel
    hy = _S["hy"]
    import hy.cmdline
    from hy.importer import runhy
    _S["n"] += 1
    tag = "l%dx%d_" % (os.getpid() % 100000, _S["n"])
    W = World(tag)
    viols, events = [], []
    probes = {"symlinked_script_runs": 0, "symlinked_script_runs_from_cache": 0}
    val = desc["val"]
    try:
        lib = tag + "lnlib"
        W.write(lib, f'(defmacro lm [x] `[~x "lnlib" {val}])\n(defn lf [x] (+ x {val}))\n')
        real_dir = os.path.join(W.root, "real")
        os.makedirs(real_dir, exist_ok=True)
        real = os.path.join(real_dir, tag + "prog.hy")
        body = f"(require {lib} [lm])\n(import {lib} [lf])\n(setv v1 (lm 1))\n(setv v2 (lf 2))\n(setv v3 (hy.eval '(lm 3)))\n"
        if desc.get("local"):
            body += f"(defn g [] (require {lib} [lm :as lm2]) (lm2 4))\n(setv v4 (g))\n"
        with open(real, "w") as f:
            f.write(body)
        W.clock += 2
        os.utime(real, (W.clock, W.clock))
        link = os.path.join(W.root, tag + "prog_link.hy")
        os.symlink(real, link)
        W.files[tag + "prog_link"] = link
        W.names.add(tag + "prog_link")
        want = {"v1": [1, "lnlib", val], "v2": 2 + val, "v3": [3, "lnlib", val]}
        if desc.get("local"):
            want["v4"] = [4, "lnlib", val]
        for r in range(desc["runs"]):
            W.restart()
            saved_path, saved_argv = list(sys.path), list(sys.argv)
            err = io.StringIO()
            try:
                sys.path[:] = [p_ for p_ in sys.path if p_ != W.root]   # only what `hy FILE` itself puts on the path
                sys.path.insert(0, "")                 # what hy_main does first
                hy.cmdline.set_path(link)              # what `hy FILE` does next
                with contextlib.redirect_stderr(err), contextlib.redirect_stdout(io.StringIO()):
                    ns = runhy.run_path(link, run_name="__main__")
                got = {k: ns.get(k, "<missing>") for k in want}
                outcome = "ok"
            except BaseException as e:
                got, outcome = {}, "%s: %s" % (type(e).__name__, str(e)[:120])
            finally:
                sys.path[:] = saved_path
                sys.argv[:] = saved_argv
            from_src = ("Compiling " + link) in err.getvalue() or ("Compiling " + real) in err.getvalue()
            probes["symlinked_script_runs"] += 1
            if not from_src:
                probes["symlinked_script_runs_from_cache"] += 1
            path = "source" if from_src else "cache"
            events.append([r, path, outcome if outcome == "ok" else outcome.split(":")[0]])
            if outcome != "ok":
                viols.append({"clause": "import_failed", "sig": "symlinked_script:" + path,
                              "detail": {"run": r, "path": path, "error": outcome, "stderr": err.getvalue()[-300:]}})
                break
            if got != want:
                viols.append({"clause": "module_values", "sig": "symlinked_script:" + path,
                              "detail": {"run": r, "path": path, "got": repr(got)[:300], "expected": repr(want)[:300]}})
            if r > 0 and from_src:
                viols.append({"clause": "load_path", "sig": "symlinked_script:valid_pyc_not_used", "detail": {"run": r}})
    finally:
        W.close()
    uniq = {}
    for v in viols:
        uniq.setdefault((v["clause"], v["sig"]), v)
    return {"events": events, "violations": list(uniq.values())[:5], "faults": {}, "probes": probes,
            "sigs": [kernel.digest(["link", desc["runs"], desc.get("local")])], "steps": desc["runs"]}


# ------------------------------------------------------------------ extension rule


def execute_ext(desc):
    from sim import kernel
    hy = _S["hy"]
    from hy.importer import HyLoader, runhy, _could_be_hy_src
    _S["n"] += 1
    tag = "e%dx%d_" % (os.getpid() % 100000, _S["n"])
    W = World(tag)
    viols, events = [], []
    probes = {"extension_loads": 0, "py_compile_loads": 0, "run_path_loads": 0}
    val = desc["val"]
    hy_text = f'(setv hy-only {val})\n(defmacro em [] {val + 1})\n(setv viamacro (em))\n(setv dbg __debug__)\n(assert (= hy-only {val}))\n'
    py_text = f'py_only = {val}\ndbg = __debug__\n'
    sys.dont_write_bytecode = True
    import importlib.machinery as _mach
    extra = desc.get("extra_suffix")
    exts = list(desc["exts"])
    if extra:
        _mach.SOURCE_SUFFIXES.append(extra)
        exts.append(extra)
    try:
        for ei, ext in enumerate(exts):
            is_hy = ext != ".py" and ext != extra
            for lang, text in (("hy", hy_text), ("py", py_text)):
                name = f"{tag}{lang}{ei}"
                p = W.write(name, text, ext=ext)
                # (a) the loader
                probes["extension_loads"] += 1
                mod = types.ModuleType(name)
                mod.__file__ = p
                sys.modules[name] = mod
                err = io.StringIO()
                try:
                    with contextlib.redirect_stderr(err):
                        loader = HyLoader(name, p)
                        code = loader.get_code(name)
                        exec(code, mod.__dict__)
                    got = ("ok", getattr(mod, "hy_only", None), getattr(mod, "py_only", None), getattr(mod, "viamacro", None))
                except BaseException as e:
                    got = ("exc", type(e).__name__)
                finally:
                    sys.modules.pop(name, None)
                want_ok = (lang == "hy") == is_hy
                want = ("ok", val, None, val + 1) if (want_ok and lang == "hy") else ("ok", None, val, None) if want_ok else None
                events.append([ext, lang, "loader", got[0], got[1] if got[0] == "exc" else ""])
                if (want is not None and got != want) or (want is None and got[0] != "exc"):
                    viols.append({"clause": "extension_rule", "sig": f"loader:{ext or 'none'}:{lang}",
                                  "detail": {"ext": ext, "text_language": lang, "got": repr(got), "expected": repr(want) if want else "an error"}})
                if _could_be_hy_src(p) != is_hy:
                    viols.append({"clause": "extension_rule", "sig": f"could_be_hy_src:{ext or 'none'}",
                                  "detail": {"ext": ext, "got": _could_be_hy_src(p)}})
                # (b) py_compile with an optimisation level, then run the produced bytecode
                if want_ok:
                    probes["py_compile_loads"] += 1
                    cfile = p + ".pyc-out"
                    try:
                        with contextlib.redirect_stderr(err):
                            py_compile.compile(p, cfile=cfile, optimize=desc["opt"], doraise=True)
                        with open(cfile, "rb") as f:
                            code = marshal.loads(f.read()[16:])
                        ns = {"__name__": name}
                        m2 = types.ModuleType(name)
                        sys.modules[name] = m2
                        try:
                            exec(code, m2.__dict__)
                        finally:
                            sys.modules.pop(name, None)
                        g2 = ("ok", m2.__dict__.get("hy_only"), m2.__dict__.get("py_only"), m2.__dict__.get("dbg"))
                    except BaseException as e:
                        g2 = ("exc", type(e).__name__ + ": " + str(e)[:100])
                    w2 = ("ok", val if lang == "hy" else None, val if lang == "py" else None, desc["opt"] == 0)
                    events.append([ext, lang, "py_compile", desc["opt"], g2[0]])
                    if g2 != w2:
                        viols.append({"clause": "py_compile", "sig": f"opt{desc['opt']}:{lang}",
                                      "detail": {"ext": ext, "optimize": desc["opt"], "got": repr(g2), "expected": repr(w2)}})
                # (c) hy FILE's loader: runhy.run_path
                probes["run_path_loads"] += 1
                try:
                    with contextlib.redirect_stderr(err), contextlib.redirect_stdout(io.StringIO()):
                        ns = runhy.run_path(p, run_name="__main__")
                    g3 = ("ok", ns.get("hy_only"), ns.get("py_only"))
                except BaseException as e:
                    g3 = ("exc", type(e).__name__)
                w3 = ("ok", val, None) if (want_ok and lang == "hy") else ("ok", None, val) if want_ok else None
                events.append([ext, lang, "run_path", g3[0], g3[1] if g3[0] == "exc" else ""])
                if (w3 is not None and g3 != w3) or (w3 is None and g3[0] != "exc"):
                    viols.append({"clause": "extension_rule", "sig": f"run_path:{ext or 'none'}:{lang}",
                                  "detail": {"ext": ext, "text_language": lang, "got": repr(g3), "expected": repr(w3) if w3 else "an error"}})
    finally:
        if extra and extra in _mach.SOURCE_SUFFIXES:
            _mach.SOURCE_SUFFIXES.remove(extra)
        W.close()
    uniq = {}
    for v in viols:
        uniq.setdefault((v["clause"], v["sig"]), v)
    return {"events": events, "violations": list(uniq.values())[:5], "faults": {}, "probes": probes,
            "sigs": [kernel.digest(["ext", desc["exts"], desc["opt"], extra])], "steps": len(desc["exts"])}


# ------------------------------------------------------------------ shrinking


def shrink(desc):
    if desc["kind"] == "link":
        if desc.get("local"):
            yield dict(desc, local=False)
        if desc["runs"] > 2:
            yield dict(desc, runs=2)
        return
    if desc["kind"] == "pkg":
        ops = desc["ops"]
        for i in range(len(ops)):
            if len(ops) > 1:
                yield dict(desc, ops=ops[:i] + ops[i + 1:])
        for i in range(len(desc["forms"])):
            if len(desc["forms"]) > 1:
                yield dict(desc, forms=desc["forms"][:i] + desc["forms"][i + 1:])
        if desc.get("first", "cli") != "cli":
            yield dict(desc, first="cli")
        return
    if desc["kind"] == "ext":
        for i in range(len(desc["exts"])):
            if len(desc["exts"]) > 1:
                yield dict(desc, exts=desc["exts"][:i] + desc["exts"][i + 1:])
        return
    ops = desc["ops"]
    if desc.get("subproc"):
        yield dict(desc, subproc=False)
    for i in range(len(ops)):
        if len(ops) > 1:
            yield dict(desc, ops=ops[:i] + ops[i + 1:])
    if len(desc["clients"]) > 1:
        for j in range(len(desc["clients"])):
            used = any(o.get("client") == j or o.get("mod") == "cli%d" % j for o in ops)
            if not used:
                nc = desc["clients"][:j] + desc["clients"][j + 1:]
                nops = []
                for o in ops:
                    o = dict(o)
                    if "client" in o and o["client"] > j:
                        o["client"] -= 1
                    if o.get("mod", "").startswith("cli") and int(o["mod"][3:]) > j:
                        o["mod"] = "cli%d" % (int(o["mod"][3:]) - 1)
                    nops.append(o)
                yield dict(desc, clients=nc, ops=nops)
    for j, cl in enumerate(desc["clients"]):
        reqs = cl["requires"]
        for r in range(len(reqs)):
            if len(reqs) > 1:
                yield dict(desc, clients=desc["clients"][:j] + [dict(cl, requires=reqs[:r] + reqs[r + 1:])] + desc["clients"][j + 1:])
            if reqs[r].get("readers"):
                nr = {k: v for k, v in reqs[r].items() if k != "readers"}
                yield dict(desc, clients=desc["clients"][:j] + [dict(cl, requires=reqs[:r] + [nr] + reqs[r + 1:])] + desc["clients"][j + 1:])
        if cl.get("hy_first"):
            yield dict(desc, clients=desc["clients"][:j] + [dict(cl, hy_first=None)] + desc["clients"][j + 1:])
        if cl.get("hy_later"):
            yield dict(desc, clients=desc["clients"][:j] + [dict(cl, hy_later=None)] + desc["clients"][j + 1:])
        for key in ("own_macro", "local_require", "in_fn"):
            if cl[key]:
                yield dict(desc, clients=desc["clients"][:j] + [dict(cl, **{key: False})] + desc["clients"][j + 1:])
    for i, lib in enumerate(desc["libs"]):
        if lib["exports"] is not None:
            yield dict(desc, libs=desc["libs"][:i] + [dict(lib, exports=None)] + desc["libs"][i + 1:])
