"""C09 -- try/except/else/finally and with behave correctly at every raise point.

Workload: generated try/with programs (nesting depth <= 3; handlers with and
without variable, typed by an effectful type expression or a list of them or
bare; else; finally; with 1-3 managers that may suppress; do / if / setv of outer
variables that share the except variable's name) placed at module level, inside
a function (with `return` inside try...finally) and as a call argument (so
statement lifting is exercised).  Every effect point -- (E k), the type
expressions (T k cls), manager construction / __enter__ / __exit__ -- calls back
into the simulator, which raises an exception of a chosen class at the c-th
dynamic effect.

Fault space: for each program the number N of dynamic effects is measured by a
fault-free run; then EVERY single fault (position < N) x (class in A, B(A), C,
BaseException-derived D) is executed (enumeration), and pairs are sampled with
the second fault landing in the handler / finally / __exit__ region reached after
the first.

Oracle: a reference interpreter over the generator's own tree, written with the
host's try/finally/with so propagation, finally-once and context-manager
protocol are inherited from Python; compared are the value or escaping exception
(class and originating effect), the full effect trace, and the outer variables.
"""
import types

from sim.engines.effects import Effects, CLASSES, FA, FB, FC, FD

PROPERTY = "C09"
LEVEL = "fault_enumeration"
ISOLATE = False
RUN_TIMEOUT = 300.0
RULE = ("one run = one generated try/with program; all single faults (dynamic effect index x 4 exception classes) are "
        "enumerated and up to 40 fault pairs sampled; evaluations counts program executions. Non-trivial execution = a fault "
        "fired inside a try or with (handler selection, finally, __exit__ actually exercised); distinct = distinct (program "
        "digest, fault plan) pairs -- reported per run as the program digest when at least one such execution happened")
REAL = ["compile_try_expression, compile_with_expression, statement lifting (Result), ScopeLet for the except variable, "
        "CPython's execution of the generated AST"]
STUB = ["effect functions E / T / CM called by the generated program (owned by the simulator; raise by plan)",
        "reference interpreter used as oracle (host try/finally/with over the generator's tree)"]
ASSUMPTIONS = ["when a `with` body completed and a later manager's __exit__ raises an exception that an outer manager of the "
               "same `with` suppresses, both 'body value' and None are accepted for that statement's value",
               "call-argument placement uses constant sibling arguments (Hy documents that lifting may reorder argument effects)"]

_S = {}
VARS = ["x", "y", "e", "w"]


def setup_worker():
    if _S:
        return
    import hy
    from hy.compiler import hy_compile
    _S["hy"] = hy
    _S["hy_compile"] = hy_compile
    _S["n"] = 0


def plan(tier):
    if tier == "thorough":
        return {"runs": 20000, "budget_s": 1500, "chunk": 20, "recheck": 8, "shrink_s": 150}
    return {"runs": 4000, "budget_s": 200, "chunk": 10, "recheck": 6, "shrink_s": 60}


# ------------------------------------------------------------------ generator


class G:
    def __init__(self, rng, allow_vars):
        self.rng = rng
        self.k = 0
        self.allow_vars = allow_vars
        self.allow_async = False

    def tag(self):
        self.k += 1
        return self.k

    def leaf(self):
        return ["E", self.tag()]

    def body(self, depth, lo=1, hi=2, in_handler_var=None):
        return [self.form(depth, in_handler_var) for _ in range(self.rng.randint(lo, hi))]

    def form(self, depth, hv=None):
        rng = self.rng
        r = rng.random()
        if depth <= 0 or r < 0.28:
            if rng.random() < 0.07:
                return ["nil"]          # a form that leaves nothing behind: the clause's value is None, not the previous form's
            if hv and rng.random() < 0.3:
                return ["tn", hv]
            if self.allow_vars and rng.random() < 0.15:
                return ["get", rng.choice(VARS)]
            return self.leaf()
        if r < 0.36:
            return ["do", self.body(depth - 1, 2, 3, hv)]
        if r < 0.44:
            return ["if", rng.random() < 0.3, self.leaf(), self.form(depth - 1, hv), self.form(depth - 1, hv)]
        if r < 0.52 and self.allow_vars:
            return ["setv", rng.choice(VARS), self.form(depth - 1, hv)]
        if r < 0.6 and depth >= 2:
            # the same constructs inside an immediately called closure or inside a comprehension that needs statements
            # (both are compiled as nested functions: temporaries and hidden handler names must stay distinct across
            # them; no assignments inside, they would be local)
            saved = self.allow_vars
            saved_async, self.allow_async = self.allow_async, False
            self.allow_vars = False
            try:
                inner = [self.try_(depth - 1, hv) if self.rng.random() < 0.6 else self.with_(depth - 1, hv)]
                if hv and self.rng.random() < 0.5:
                    inner.append(["tn", hv])
                elif self.rng.random() < 0.4:
                    inner.append(self.leaf())
            finally:
                self.allow_vars = saved
                self.allow_async = saved_async
            return [self.rng.choice(["closure", "comp"]), inner]
        if r < 0.8:
            return self.try_(depth, hv)
        return self.with_(depth, hv)

    def try_(self, depth, hv=None):
        rng = self.rng
        handlers = []
        for _ in range(rng.choice([0, 1, 1, 2])):
            tk = rng.choice(["bare", "one", "one", "list"])
            if tk == "bare":
                types_ = None
            elif tk == "one":
                types_ = ["one", ["T", self.tag(), rng.choice(["A", "B", "C", "Exception", "D"])]]
            else:
                types_ = ["list", [["T", self.tag(), rng.choice(["A", "B", "C", "Exception"])] for _ in range(rng.randint(1, 2))]]
            var = rng.choice([None, "e", "x", "err"]) if types_ is not None else None
            handlers.append({"types": types_, "var": var, "body": self.body(depth - 1, 0, 2, var or hv)})
            if types_ is None:
                break  # a bare except must be last
        orelse = self.body(depth - 1, 0, 2, hv) if rng.random() < 0.4 else None
        final = self.body(depth - 1, 1, 2, hv) if rng.random() < 0.5 else None
        if not handlers and final is None and orelse is None:
            final = [self.leaf()]
        return ["try", self.body(depth - 1, 0, 2, hv), handlers, orelse, final]

    def with_(self, depth, hv=None):
        rng = self.rng
        ms = []
        for _ in range(rng.choice([1, 1, 2, 3])):
            ms.append({"k": self.tag(), "var": (rng.choice([None, "w", "x"]) if self.allow_vars else None),
                       "suppress": rng.random() < 0.4, "pre": (self.tag() if rng.random() < 0.3 else None),
                       "async": self.allow_async and rng.random() < 0.45})
        return ["with", ms, self.body(depth - 1, 0, 2, hv)]


def generate(rng, tier):
    placement = rng.choice(["top", "top", "call", "fn", "fnret", "afn", "fng", "fnn"])
    # fng: inside a function that declares the variables global; fnn: inside a nested function that declares them
    # nonlocal (handler variables of the same names must still be scoped to their handlers)
    g = G(rng, allow_vars=placement in ("top", "call", "fng", "fnn"))
    # inside a coroutine a `with` may mix synchronous and asynchronous managers (Hy splits it into nested statements)
    g.allow_async = placement == "afn"
    depth = rng.choice([1, 2, 2, 3])
    root = g.try_(depth) if rng.random() < (0.6 if placement != "afn" else 0.3) else g.with_(depth)
    if rng.random() < 0.15:
        # a handler that contains another try binding the SAME variable name, and reads its own variable afterwards
        v = rng.choice(["e", "x", "err"])
        inner = ["try", [g.leaf()], [{"types": ["one", ["T", g.tag(), "Exception"]], "var": v, "body": [["tn", v]]}], None,
                 ([g.leaf()] if rng.random() < 0.3 else None)]
        root = ["try", [g.leaf()], [{"types": ["one", ["T", g.tag(), rng.choice(["Exception", "A"])]], "var": v,
                                     "body": [inner, ["tn", v], g.leaf()]}], None, ([g.leaf()] if rng.random() < 0.3 else None)]
    pre = [g.leaf()] if rng.random() < 0.3 else []
    post = [g.leaf()] if rng.random() < 0.2 else []
    r = rng.random()
    if r < 0.12:
        # sibling handlers: an earlier handler names v, later handlers / else / finally / the code after the try
        # read or assign the OUTER variable of the same name
        placement = rng.choice(["top", "call", "fng", "fnn"])
        g.allow_vars = True
        v = rng.choice(["e", "x"])

        def use():
            return rng.choice([["get", v], ["setv", v, g.leaf()], ["tn", v], ["do", [["setv", v, g.leaf()], ["get", v]]]])

        hs = [{"types": ["one", ["T", g.tag(), rng.choice(["A", "B"])]], "var": v, "body": [rng.choice([g.leaf(), ["tn", v]])]}]
        for _ in range(rng.choice([1, 1, 2])):
            hs.append({"types": ["one", ["T", g.tag(), rng.choice(["C", "A", "Exception", "D"])]],
                       "var": rng.choice([None, None, "err"]), "body": [use()] + ([g.leaf()] if rng.random() < 0.5 else [])})
        if rng.random() < 0.3:
            hs.append({"types": None, "var": None, "body": [use()]})
        root = ["try", [g.leaf(), g.leaf()], hs, ([use()] if rng.random() < 0.4 else None), ([use()] if rng.random() < 0.4 else None)]
        post = [["get", v]]
    elif r < 0.24:
        # a try that is the value of an assignment to v and whose clauses read (the old) v; handlers may be empty
        placement = rng.choice(["top", "call", "fng", "fnn"])
        g.allow_vars = True
        v = rng.choice(["x", "w", "e"])

        def rd():
            return rng.choice([["get", v], g.leaf(), ["do", [g.leaf(), ["get", v]]]])

        hs = []
        for _ in range(rng.choice([1, 1, 2])):
            hs.append({"types": ["one", ["T", g.tag(), rng.choice(["A", "B", "C", "Exception"])]], "var": rng.choice([None, None, "err"]),
                       "body": rng.choice([[], [], [rd()], [g.leaf(), rd()]])})
        inner = ["try", [rd(), rd()], hs, ([rd()] if rng.random() < 0.3 else None), ([rd()] if rng.random() < 0.4 else None)]
        root = ["do", [["setv", v, inner], ["get", v]]] if rng.random() < 0.5 else ["setv", v, inner]
        if rng.random() < 0.4:
            root = ["try", [root], [{"types": ["one", ["T", g.tag(), "Exception"]], "var": None, "body": [["get", v]]}], None, None]
        post = [["get", v]]
    return {"placement": placement, "root": root, "pre": pre, "post": post, "pair_seed": rng.randrange(1 << 30)}


# ------------------------------------------------------------------ rendering to Hy


def hy_src(n):
    t = n[0]
    if t == "E":
        return f"(E {n[1]})"
    if t == "T":
        return f'(T {n[1]} "{n[2]}")'
    if t == "tn":
        return f"(TN {n[1]})"
    if t == "nil":
        return "(do)"
    if t == "get":
        return n[1]
    if t == "do":
        return "(do " + " ".join(hy_src(x) for x in n[1]) + ")"
    if t == "if":
        c = hy_src(n[2])
        if n[1]:
            c = f"(not {c})"
        return f"(if {c} {hy_src(n[3])} {hy_src(n[4])})"
    if t == "setv":
        return f"(setv {n[1]} {hy_src(n[2])})"
    if t == "closure":
        return "((fn [] " + " ".join(hy_src(x) for x in n[1]) + "))"
    if t == "comp":
        return "(lfor _q [0] (do " + " ".join(hy_src(x) for x in n[1]) + "))"
    if t == "ret":
        return f"(return {hy_src(n[1])})"
    if t == "try":
        _, body, handlers, orelse, final = n
        s = "(try " + " ".join(hy_src(x) for x in body)
        for h in handlers:
            if h["types"] is None:
                spec = "[]"
            else:
                kind, ts = h["types"]
                te = hy_src(ts) if kind == "one" else "[" + " ".join(hy_src(x) for x in ts) + "]"
                spec = f"[{h['var']} {te}]" if h["var"] else f"[{te}]"
            s += f" (except {spec} " + " ".join(hy_src(x) for x in h["body"]) + ")"
        if orelse is not None:
            s += " (else " + " ".join(hy_src(x) for x in orelse) + ")"
        if final is not None:
            s += " (finally " + " ".join(hy_src(x) for x in final) + ")"
        return s + ")"
    if t == "with":
        _, ms, body = n
        def mexpr(m):
            c = f"({'ACM' if m.get('async') else 'CM'} {m['k']} {'True' if m['suppress'] else 'False'})"
            return f"(do (E {m['pre']}) {c})" if m.get("pre") else c
        items = " ".join((":async " if m.get("async") else "") + (f"{m['var']} " if m["var"] else "_ ") + mexpr(m) for m in ms)
        return f"(with [{items}] " + " ".join(hy_src(x) for x in body) + ")"
    raise ValueError(t)


def _with_return(root, rng_bit):
    """Put a `return` around the last form of the try body (or of the first handler)."""
    if root[0] == "try" and root[1]:
        body = list(root[1])
        body[-1] = ["ret", body[-1]]
        return ["try", body] + root[2:]
    return root


def program(desc):
    root = desc["root"]
    pl = desc["placement"]
    pre = " ".join(hy_src(x) for x in desc["pre"])
    post = " ".join(hy_src(x) for x in desc["post"])
    init = '(setv x 0 y 0 e "outer-e" w 0)\n'
    if pl == "top":
        # value of the program = value of the root form (post effects go before it is read)
        return init + (pre + "\n" if pre else "") + f"(setv RESULT {hy_src(root)})\n" + (post + "\n" if post else "") + "RESULT\n", root
    if pl == "call":
        return init + (pre + "\n" if pre else "") + f"(setv RESULT (F 1 {hy_src(root)} 2))\n" + (post + "\n" if post else "") + "RESULT\n", root
    if pl == "fn":
        return init + f"((fn [] {pre} (setv r {hy_src(root)}) {post} r))\n", root
    if pl == "fng":
        return init + f"((fn [] (global x y e w) {pre} (setv r {hy_src(root)}) {post} r))\n", root
    if pl == "fnn":
        return (init + "(defn outer []\n  (setv x 0 y 0 e \"outer-e\" w 0)\n"
                f"  (defn inner [] (nonlocal x y e w) {pre} (setv r {hy_src(root)}) {post} r)\n"
                "  (try (inner) (finally (setv (get (globals) \"SNAP\") [x y e w]))))\n"
                "(try (setv RESULT (outer)) (finally (setv [x y e w] SNAP)))\nRESULT\n"), root
    if pl == "afn":
        # a coroutine driven to completion by the harness (no awaitable in it ever suspends)
        return init + f"(defn :async amain [] {pre} (setv r {hy_src(root)}) {post} r)\n(DRIVE (amain))\n", root
    r2 = _with_return(root, 0)
    return init + f"((fn [] {pre} {hy_src(r2)} {post} \"fell-through\"))\n", r2


# ------------------------------------------------------------------ reference interpreter


class ReturnSignal(BaseException):
    def __init__(self, v):
        self.v = v


class Ambiguous(Exception):
    pass


class Ref:
    def __init__(self, eff):
        self.eff = eff
        self.scopes = [{"x": 0, "y": 0, "e": "outer-e", "w": 0}]
        self.ambiguous = False
        self.uncertain = set()

    # variables
    def get(self, name):
        if name in self.uncertain:
            self.ambiguous = True   # reading a variable whose value relaxation 5.5(b) left open
        for s in reversed(self.scopes):
            if name in s:
                return s[name]
        raise NameError(name)

    def set(self, name, v):
        for s in reversed(self.scopes):
            if name in s:
                s[name] = v
                return
        self.scopes[0][name] = v

    def body(self, forms):
        v = None
        for f in forms:
            v = self.ev(f)
        return v

    def ev(self, n):
        t = n[0]
        if t == "E":
            self.eff.hit(n[1])
            return n[1]
        if t == "T":
            self.eff.hit(n[1])
            return Exception if n[2] == "Exception" else CLASSES[n[2]]
        if t == "tn":
            return type(self.get(n[1])).__name__
        if t == "nil":
            return None
        if t == "get":
            return self.get(n[1])
        if t == "do":
            return self.body(n[1])
        if t == "if":
            c = self.ev(n[2])
            if n[1]:
                c = not c
            return self.ev(n[3]) if c else self.ev(n[4])
        if t == "setv":
            try:
                v = self.ev(n[2])
            except ReturnSignal:
                raise
            except BaseException:
                # Hy renames the temporary that holds a try/with/if value to the assignment target, so the target may
                # already hold the body's value when a later clause (finally, __exit__) raises.  C09 says nothing about
                # that, so the target of a setv whose value expression raised is not compared.
                self.uncertain.add(n[1])
                raise
            self.set(n[1], v)
            return None
        if t == "closure":
            return self.body(n[1])
        if t == "comp":
            return [self.body(n[1])]
        if t == "ret":
            raise ReturnSignal(self.ev(n[1]))
        if t == "try":
            return self.try_(n)
        if t == "with":
            return self.with_(n)
        raise ValueError(t)

    def try_(self, n):
        _, body, handlers, orelse, final = n
        if orelse is not None and not handlers:
            body = body + orelse
            orelse = None
        if not handlers and final is None:
            return self.body(body)
        v = None
        try:
            try:
                v = self.body(body)
            except ReturnSignal:
                raise
            except BaseException as exc:
                for h in handlers:
                    if h["types"] is None:
                        ok = True
                    else:
                        kind, ts = h["types"]
                        if kind == "one":
                            ok = isinstance(exc, self.ev(ts))
                        else:
                            ok = isinstance(exc, tuple([self.ev(x) for x in ts]))
                    if ok:
                        self.scopes.append({h["var"]: exc} if h["var"] else {})
                        try:
                            v = self.body(h["body"])
                        finally:
                            self.scopes.pop()
                        break
                else:
                    raise
            else:
                if orelse is not None:
                    v = self.body(orelse)
        finally:
            if final is not None:
                self.body(final)
        return v

    def with_(self, n):
        _, ms, body = n
        state = {"body_done": False}
        ref = self

        class CM:
            def __init__(s, m):
                ref.eff.hit([m["k"], "new"])
                s.m = m

            def __enter__(s):
                ref.eff.hit([s.m["k"], "aenter" if s.m.get("async") else "enter"])
                return s.m["k"] * 10

            def __exit__(s, et, ev, tb):
                ref.eff.hit([s.m["k"], "aexit" if s.m.get("async") else "exit"])
                if et is not None and issubclass(et, ReturnSignal):
                    return False  # a `return` is not an exception: nothing to suppress
                return s.m["suppress"]

        def level(i):
            if i == len(ms):
                v = ref.body(body)
                state["body_done"] = True
                return v
            m = ms[i]
            if m.get("pre"):
                ref.eff.hit(m["pre"])
            with CM(m) as val:
                if m["var"]:
                    ref.set(m["var"], val)
                return level(i + 1)
            # only reached when this manager suppressed an exception
            if state["body_done"]:
                ref.ambiguous = True
            return None

        return level(0)


# ------------------------------------------------------------------ execution


def make_env(eff):
    def E(k):
        eff.hit(k)
        return k

    def T(k, cls):
        eff.hit(k)
        return Exception if cls == "Exception" else CLASSES[cls]

    class CM:
        def __init__(s, k, suppress):
            eff.hit([k, "new"])
            s.k, s.suppress = k, suppress

        def __enter__(s):
            eff.hit([s.k, "enter"])
            return s.k * 10

        def __exit__(s, *a):
            eff.hit([s.k, "exit"])
            return s.suppress

    class ACM:
        def __init__(s, k, suppress):
            eff.hit([k, "new"])
            s.k, s.suppress = k, suppress

        async def __aenter__(s):
            eff.hit([s.k, "aenter"])
            return s.k * 10

        async def __aexit__(s, *a):
            eff.hit([s.k, "aexit"])
            return s.suppress

    def DRIVE(coro):
        # nothing in the generated coroutines ever suspends: one send runs it to completion
        try:
            coro.send(None)
        except StopIteration as stop:
            return stop.value
        finally:
            coro.close()
        raise RuntimeError("harness: generated coroutine suspended")

    return {"E": E, "T": T, "CM": CM, "ACM": ACM, "DRIVE": DRIVE, "F": lambda *a: list(a), "TN": lambda x: type(x).__name__}


def describe_exc(e):
    return ["exc", type(e).__name__, str(e)]


def norm(v):
    if isinstance(v, BaseException):
        return "<exception %s>" % type(v).__name__
    if isinstance(v, list):
        return [norm(x) for x in v]
    return v


def run_sut(codes, plan):
    eff = Effects(plan)
    g = make_env(eff)
    try:
        exec(codes[0], g)
        out = ["ok", norm(eval(codes[1], g))]
    except BaseException as e:
        out = describe_exc(e)
    vars_ = {k: norm(g.get(k)) for k in VARS}
    return out, eff.log, vars_, eff


def run_ref(desc, root, plan):
    eff = Effects(plan)
    ref = Ref(eff)
    pl = desc["placement"]
    try:
        ref.body(desc["pre"])
        if pl in ("top", "call"):
            v = ref.ev(root)
            if pl == "call":
                v = [1, v, 2]
            ref.body(desc["post"])
        elif pl in ("fn", "afn", "fng", "fnn"):
            v = ref.ev(root)
            ref.body(desc["post"])
        else:
            try:
                ref.ev(root)
                ref.body(desc["post"])
                v = "fell-through"
            except ReturnSignal as r:
                v = r.v
        out = ["ok", norm(v)]
    except ReturnSignal as r:
        out = ["ok", norm(r.v)]
    except BaseException as e:
        out = describe_exc(e)
    g = ref.scopes[0]
    vars_ = {k: norm(g.get(k)) for k in VARS}
    for k in ref.uncertain:
        vars_[k] = "<uncertain>"
    return out, eff.log, vars_, ref.ambiguous


def execute(desc):
    setup_worker()
    import random
    from sim import kernel
    hy = _S["hy"]
    src, root = program(desc)
    _S["n"] += 1
    mod = types.ModuleType("c09mod")
    try:
        exec_ast, eval_ast = _S["hy_compile"](hy.read_many(src), mod, get_expr=True)
        codes = (compile(exec_ast, "<c09>", "exec"), compile(eval_ast, "<c09>", "eval"))
    except BaseException as e:
        from hy.errors import HyLanguageError
        if isinstance(e, (HyLanguageError, SyntaxError)):
            raise RuntimeError("harness: generated program is not valid Hy: %s\n%s" % (e, src))
        # every generated program is a well-formed try/with nesting: an internal error or an AST that Python's
        # compile() rejects means there is no compiled code that could run the prescribed clauses
        return {"events": [["does_not_compile", type(e).__name__, str(e)[:200]]],
                "violations": [{"clause": "program_does_not_compile", "sig": type(e).__name__,
                                "detail": {"error": "%s: %s" % (type(e).__name__, str(e)[:300]), "program": src[-1500:]}}],
                "faults": {}, "probes": {"executions": 0}, "sigs": [], "steps": 0}
    viols, events = [], []
    faults = {"single_faults_executed": 0, "fault_pairs_executed": 0, "fired_class_A": 0, "fired_class_B": 0, "fired_class_C": 0,
              "fired_class_D_baseexception": 0, "fault_in_manager_protocol": 0, "fault_in_type_expression": 0}
    probes = {"executions": 0, "ambiguous_with_value_runs": 0, "max_dynamic_effects": 0, "exceptions_escaped": 0,
              "exceptions_handled_or_suppressed": 0}
    interesting = False

    def compare(plan, kind):
        nonlocal interesting
        probes["executions"] += 1
        got, glog, gvars, eff = run_sut(codes, plan)
        want, wlog, wvars, amb = run_ref(desc, root, plan)
        if amb:
            probes["ambiguous_with_value_runs"] += 1
        for c, tag, cls in eff.fired:
            faults["fired_class_" + ("D_baseexception" if cls == "D" else cls)] += 1
            if isinstance(tag, list):
                faults["fault_in_manager_protocol"] += 1
            interesting = True
        if eff.fired:
            if got[0] == "exc":
                probes["exceptions_escaped"] += 1
            else:
                probes["exceptions_handled_or_suppressed"] += 1
        clause = None
        if glog != wlog:
            clause = ("effect_trace", "trace")
        elif got[0] != want[0] or (got[0] == "exc" and got != want):
            clause = ("escaping_exception", "exc")
        elif not amb and got != want:
            clause = ("value", "value")
        elif not amb and any(wvars[k] != "<uncertain>" and gvars[k] != wvars[k] for k in wvars):
            clause = ("outer_variables", "vars")
        if clause:
            viols.append({"clause": clause[0], "sig": kind + ":" + desc["placement"],
                          "detail": {"plan": plan, "got": repr(got)[:200], "expected": repr(want)[:200],
                                     "got_trace": repr(glog)[:400], "expected_trace": repr(wlog)[:400],
                                     "got_vars": gvars, "expected_vars": wvars, "src": src[:1500]}})
        return eff.count, eff

    n, _ = compare({}, "nofault")
    probes["max_dynamic_effects"] = n
    events.append(["program", kernel.digest(src), n])
    # every single fault
    reach = {}
    for i in range(n):
        for cls in ("A", "B", "C", "D"):
            faults["single_faults_executed"] += 1
            cnt, eff = compare({str(i): cls}, "single")
            reach[(i, cls)] = cnt
            if len(viols) > 12:
                break
    # sampled pairs: second fault after the first, in the execution the first one leads to
    rng = random.Random(desc.get("pair_seed", 0))
    cands = [(i, c, j) for (i, c), cnt in reach.items() for j in range(i + 1, cnt)]
    rng.shuffle(cands)
    for i, c, j in cands[:40]:
        faults["fault_pairs_executed"] += 1
        compare({str(i): c, str(j): rng.choice(["A", "B", "C", "D"])}, "pair")
    for p in desc.get("extra_plans", []):
        compare(p, "replay")
    uniq = {}
    for v in viols:
        uniq.setdefault((v["clause"], v["sig"]), v)
    events.append(["summary", probes["executions"], len(uniq)])
    return {"events": events, "violations": list(uniq.values())[:5], "faults": faults, "probes": probes,
            "sigs": [kernel.digest(src)] if interesting else [], "steps": probes["executions"]}


def extra_evidence(results):
    ex = sum(r.get("probes", {}).get("executions", 0) for r in results.values() if "probes" in r)
    return {"program_executions": ex, "exhaustive_single_faults_per_program": True,
            "explanation": "for every generated program all (dynamic effect index, exception class) single faults are executed; "
                           "programs and fault pairs are sampled"}


# ------------------------------------------------------------------ shrinking


def _simpler(n):
    t = n[0]
    if t == "do":
        for i in range(len(n[1])):
            if len(n[1]) > 1:
                yield ["do", n[1][:i] + n[1][i + 1:]]
        for i, x in enumerate(n[1]):
            yield x
            for s in _simpler(x):
                yield ["do", n[1][:i] + [s] + n[1][i + 1:]]
    elif t in ("closure", "comp"):
        for x in n[1]:
            yield x
        for i in range(len(n[1])):
            if len(n[1]) > 1:
                yield [t, n[1][:i] + n[1][i + 1:]]
        for i, x in enumerate(n[1]):
            for s in _simpler(x):
                yield [t, n[1][:i] + [s] + n[1][i + 1:]]
    elif t == "if":
        yield n[3]
        yield n[4]
    elif t == "setv":
        yield n[2]
        for s in _simpler(n[2]):
            yield ["setv", n[1], s]
    elif t == "try":
        _, body, handlers, orelse, final = n
        for i in range(len(body)):
            yield ["try", body[:i] + body[i + 1:], handlers, orelse, final]
        for i, x in enumerate(body):
            for s in _simpler(x):
                yield ["try", body[:i] + [s] + body[i + 1:], handlers, orelse, final]
        for i in range(len(handlers)):
            if len(handlers) > 1 or final is not None:
                yield ["try", body, handlers[:i] + handlers[i + 1:], orelse, final]
        for i, h in enumerate(handlers):
            if h["var"]:
                if not _uses_tn(h["body"], h["var"]):
                    yield ["try", body, handlers[:i] + [dict(h, var=None)] + handlers[i + 1:], orelse, final]
            for j in range(len(h["body"])):
                yield ["try", body, handlers[:i] + [dict(h, body=h["body"][:j] + h["body"][j + 1:])] + handlers[i + 1:], orelse, final]
            for j, x in enumerate(h["body"]):
                for s in _simpler(x):
                    yield ["try", body, handlers[:i] + [dict(h, body=h["body"][:j] + [s] + h["body"][j + 1:])] + handlers[i + 1:], orelse, final]
        if orelse is not None:
            yield ["try", body, handlers, None, final]
        if final is not None and handlers:
            yield ["try", body, handlers, orelse, None]
        if final:
            for j in range(len(final)):
                if len(final) > 1:
                    yield ["try", body, handlers, orelse, final[:j] + final[j + 1:]]
    elif t == "with":
        _, ms, body = n
        for i in range(len(ms)):
            if len(ms) > 1:
                yield ["with", ms[:i] + ms[i + 1:], body]
        for i, m in enumerate(ms):
            if m["var"]:
                yield ["with", ms[:i] + [dict(m, var=None)] + ms[i + 1:], body]
            if m.get("async"):
                yield ["with", ms[:i] + [dict(m, **{"async": False})] + ms[i + 1:], body]
        for i in range(len(body)):
            yield ["with", ms, body[:i] + body[i + 1:]]
        for i, x in enumerate(body):
            for s in _simpler(x):
                yield ["with", ms, body[:i] + [s] + body[i + 1:]]


def _uses_tn(forms, var):
    s = repr(forms)
    return repr(["tn", var]) in s


def shrink(desc):
    if desc["pre"]:
        yield dict(desc, pre=[])
    if desc["post"]:
        yield dict(desc, post=[])
    if desc["placement"] != "top":
        yield dict(desc, placement="top")
    for s in _simpler(desc["root"]):
        if s[0] in ("try", "with"):
            yield dict(desc, root=s)
