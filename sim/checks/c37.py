"""C37 -- reader macros are defined and used in stream order and per module.

A run is a history over 2-3 modules, one persistent reader per module plus
throw-away readers and one REPL per module.  Each op feeds a generated stream of
top-level forms -- defreader (expanding to a tagged string, parsing the next form,
returning None, raising, or nesting another hy.read), uses before / after /
inside the defining form, require :readers [...] / * from another module,
ordinary forms, a form that fails to compile mid-stream -- through one of three
front ends: hy.eval of a LAZY hy.read_many stream (reads counted on a
simulator-owned stream), read-one-form / eval-one-form, and REPL.runsource.
A further op evaluates a pre-read defreader model while no reader is active.

Oracle: a reference visibility model (per reader: name -> definition; per module:
its reader-macro table) predicts every produced value, every "not defined" /
failing read, and what survives a failure; stream positions observed from
compile-time probes show that form n+1 is not read before form n was compiled;
after every op, including failed ones, every name is probed through a fresh
reader (must be undefined), every module's table must equal the model, and no
reader may be left installed as the current one.
"""
import contextlib
import io
import sys
import types

PROPERTY = "C37"
LEVEL = "exploration"
ISOLATE = False
RULE = ("one run = a history of 5-14 stream ops over 2-3 modules / readers / REPLs; non-trivial = a history with a use that "
        "depends on an earlier definition or require in another op or module, or a failing op followed by checked ops; distinct "
        "= distinct sequences of (front end, reader kind, form kinds, outcome)")
REAL = ["hy.read / hy.read_many (lazy stream), HyReader incl. current-reader handling, defreader, require :readers, "
        "hy.macros.require_reader / enable_readers, hy.eval, hy.REPL.runsource"]
STUB = ["the input stream (io.StringIO subclass reporting its position to compile-time probes)",
        "reference visibility model used as the oracle"]
ASSUMPTIONS = ["a failing require :readers names the missing reader first, so nothing is transferred before the failure"]

_S = {}
KIND = {"r1": "const", "r2": "const", "rn": "next", "rnone": "none", "rbad": "bad", "rnest": "nest"}
NAMES = list(KIND)


class PosStream(io.StringIO):
    pass


def setup_worker():
    if _S:
        return
    import hy
    import hy.errors
    import hy.repl
    import hy.macros
    from hy.reader.exceptions import LexException, PrematureEndOfInput
    from hy.reader.hy_reader import HyReader
    _S["hy"] = hy
    _S["HyReader"] = HyReader
    _S["Lex"] = LexException
    _S["errors"] = hy.errors
    _S["n"] = 0
    p = types.ModuleType("c37probe")
    p.stream = None
    p.log = []

    def pos(k):
        p.log.append([k, p.stream.tell() if p.stream is not None else -1])

    p.pos = pos
    p.jobs = {}

    def nested(k):
        p.jobs[k]()

    p.nested = nested
    sys.modules["c37probe"] = p
    _S["probe"] = p


def plan(tier):
    if tier == "thorough":
        return {"runs": 20000, "budget_s": 1500, "chunk": 20, "recheck": 8, "shrink_s": 150}
    return {"runs": 1000, "budget_s": 200, "chunk": 8, "recheck": 6, "shrink_s": 60}


# ------------------------------------------------------------------ generation


def gen_forms(rng, nmods, mod):
    forms = []
    for _ in range(rng.randint(1, 5)):
        r = rng.random()
        if r < 0.3:
            forms.append(["def", rng.choice(NAMES)])
        elif r < 0.6:
            forms.append(["use", rng.choice(NAMES)])
        elif r < 0.67:
            forms.append(["defuse", rng.choice(["r1", "r2", "rn"])])
        elif r < 0.8 and nmods > 1:
            j = rng.choice([m for m in range(nmods) if m != mod])
            if rng.random() < 0.3:
                forms.append(["req", j, "*"])
            elif rng.random() < 0.3:
                # ONE require form with several `:readers` entries (from the same or from different modules)
                others = [m for m in range(nmods) if m != mod]
                forms.append(["reqm", [[rng.choice(others), rng.sample(NAMES, rng.randint(1, 2))] for _ in range(rng.randint(2, 3))]])
            else:
                forms.append(["req", j, rng.sample(NAMES, rng.randint(1, 2))])
        elif r < 0.86 and nmods > 1:
            # while this stream is being compiled, another module's stream (with that module's own reader) is
            # read and evaluated from a compile-time form
            j = rng.choice([m for m in range(nmods) if m != mod])
            forms.append(["nested", j, [["def", rng.choice(["r1", "r2", "rn", "rnone"])] for _ in range(rng.randint(1, 2))] +
                          [["plain", rng.randrange(100)]]])
        elif r < 0.93:
            forms.append(["plain", rng.randrange(100)])
        else:
            forms.append(["cerr"])
    return forms


def generate(rng, tier):
    nmods = rng.choice([2, 2, 3])
    ops = []
    for _ in range(rng.randrange(5, 15)):
        mod = rng.randrange(nmods)
        r = rng.random()
        if r < 0.08:
            ops.append({"fe": "noreader", "mod": mod, "name": rng.choice(["r1", "r2", "rn"])})
            continue
        fe = rng.choice(["lazy", "lazy", "onebyone", "repl", "iter"])
        reader = "repl" if fe == "repl" else rng.choice(["own", "own", "own", "fresh"])
        op = {"fe": fe, "mod": mod, "reader": reader, "forms": gen_forms(rng, nmods, mod), "pos": fe == "lazy" and rng.random() < 0.6}
        if fe == "iter" and nmods > 1 and len(op["forms"]) >= 2 and rng.random() < 0.7:
            # the stream is consumed form by form from ONE read_many iterator; while it is suspended between two forms,
            # another module evaluates a defreader model that has no reader of its own
            op["pause"] = {"at": rng.randrange(1, len(op["forms"])), "mod": rng.choice([m for m in range(nmods) if m != mod]),
                           "name": rng.choice(["r1", "r2", "rn"])}
        ops.append(op)
    return {"nmods": nmods, "ops": ops}


# ------------------------------------------------------------------ rendering


def render_form(f, uid, tagdef):
    """tagdef: the tag string a definition made by this form gets."""
    k = f[0]
    if k == "def":
        return render_def(f[1], tagdef)
    if k == "use":
        return render_use(f[1], uid)
    if k == "defuse":
        return "(do " + render_def(f[1], tagdef) + " " + render_use(f[1], uid) + ")"
    if k == "req":
        spec = "*" if f[2] == "*" else "[" + " ".join(f[2]) + "]"
        return f"(require {{MOD{f[1]}}} :readers {spec})"
    if k == "reqm":
        return "(require " + " ".join(f"{{MOD{j}}} :readers [" + " ".join(names) + "]" for j, names in f[1]) + ")"
    if k == "nested":
        return f"(eval-when-compile (hy.I.c37probe.nested {uid}))"
    if k == "plain":
        return f"(.append OUT (+ {f[1]} 1000))"
    if k == "cerr":
        return "(.append OUT (if))"
    raise ValueError(k)


def render_def(name, tag):
    kind = KIND[name]
    if kind == "const":
        return f'(defreader {name} \'"{tag}")'
    if kind == "next":
        return f'(defreader {name} (setv nf (.parse-one-form &reader)) `[~nf "{tag}"])'
    if kind == "none":
        return f"(defreader {name} (.parse-one-form &reader) None)"
    if kind == "bad":
        return f'(defreader {name} (raise (ValueError "{tag}")))'
    return f'(defreader {name} `[~(hy.read "42") "{tag}"])'


def render_use(name, uid):
    kind = KIND[name]
    if kind in ("next", "none"):
        return f"(.append OUT [{uid} #{name} 5 99])"
    return f"(.append OUT [{uid} #{name} 99])"


def use_value(name, uid, tag):
    kind = KIND[name]
    if kind == "const":
        return [uid, tag, 99]
    if kind == "next":
        return [uid, [5, tag], 99]
    if kind == "none":
        return [uid, 99]
    if kind == "nest":
        return [uid, [42, tag], 99]
    raise ValueError(kind)


# ------------------------------------------------------------------ reference model


class Model:
    def __init__(self, nmods):
        self.readers = {("own", i): {} for i in range(nmods)}
        self.tables = {i: {} for i in range(nmods)}
        self.ntag = 0
        self.nested_jobs = {}
        self.rt_actions = []

    def tag(self, mod, name):
        self.ntag += 1
        return "M%d:%s:%d" % (mod, name, self.ntag)

    def process(self, op, R, uid0):
        """R: dict name->tag of the reader in use (mutated). Returns (per-form records, error or None).
        record = [kind, value or None]; compile-time effects are applied as the forms are processed."""
        mod = op["mod"]
        recs = []
        for fi, f in enumerate(op["forms"]):
            uid = uid0 + fi
            k = f[0]
            tagdef = self.tag(mod, f[1]) if k in ("def", "defuse") else None
            if k == "req" and f[2] != "*":
                # a failing require must fail at its first name (nothing transferred before the failure): decided with
                # the tables as they are when this form is reached
                missing = [n for n in f[2] if n not in self.tables[f[1]]]
                if missing:
                    f = ["req", f[1], missing[:1] + [n for n in f[2] if n != missing[0]]]
                    op["forms"][fi] = f
            if k == "reqm":
                # only names the source module has when the form is reached (a multi-entry require never fails here);
                # entries left without a name are dropped
                ents = [[j, [n for n in names if n in self.tables[j]]] for j, names in f[1]]
                ents = [e for e in ents if e[1]]
                f = ["reqm", ents] if ents else ["plain", 7]
                k = f[0]
                op["forms"][fi] = f
            f_src = render_form(f, uid, tagdef)
            if k == "reqm":
                for j, names in f[1]:
                    for n in names:
                        self.tables[mod][n] = self.tables[j][n]
                        R[n] = self.tables[j][n]
                    self.rt_actions.append(["req", j, names])
                recs.append(["req", None, f_src])
            elif k == "def":
                self.tables[mod][f[1]] = tagdef
                R[f[1]] = tagdef
                self.rt_actions.append(["def", f[1], tagdef])
                recs.append(["def", None, f_src])
            elif k in ("use", "defuse"):
                name = f[1]
                if name not in R:
                    return recs, ("read", "undefined", f_src)
                if KIND[name] == "bad":
                    return recs, ("read", "raises", f_src)
                val = use_value(name, uid, R[name])
                if k == "defuse":
                    self.tables[mod][name] = tagdef
                    R[name] = tagdef
                    self.rt_actions.append(["def", name, tagdef])
                recs.append(["use", val, f_src])
            elif k == "req":
                j, names = f[1], f[2]
                src_table = self.tables[j]
                want = sorted(src_table) if names == "*" else names
                if names != "*" and any(n not in src_table for n in names):
                    # generator puts a missing name first, see sanitize()
                    return recs, ("compile", "HyRequireError", f_src)
                for n in want:
                    self.tables[mod][n] = src_table[n]
                    R[n] = src_table[n]
                if names == "*":
                    # `:readers *` enables every reader macro the requiring module has, in the current reader
                    R.update(self.tables[mod])
                self.rt_actions.append(["req", j, names])
                recs.append(["req", None, f_src])
            elif k == "nested":
                j = f[1]
                texts = []
                for g in f[2]:
                    if g[0] == "def":
                        t = self.tag(j, g[1])
                        self.tables[j][g[1]] = t
                        self.readers[("own", j)][g[1]] = t
                        texts.append(render_def(g[1], t))
                    else:
                        texts.append(f"(.append OUT (+ {g[1]} 1000))")
                self.nested_jobs[uid] = (j, "\n".join(texts) + "\n")
                recs.append(["nested", None, f_src])
            elif k == "plain":
                recs.append(["plain", f[1] + 1000, f_src])
            elif k == "cerr":
                return recs, ("compile", "HySyntaxError", f_src)
        return recs, None


def sanitize(forms, tables):
    """Make failing requires fail at their first name (nothing transferred before the failure)."""
    out = []
    for f in forms:
        if f[0] == "req" and f[2] != "*":
            names = f[2]
            missing = [n for n in names if n not in tables[f[1]]]
            if missing:
                f = ["req", f[1], missing[:1] + [n for n in names if n != missing[0]]]
        out.append(f)
    return out


# ------------------------------------------------------------------ execution


def execute(desc):
    setup_worker()
    from sim import kernel
    hy, HyReader = _S["hy"], _S["HyReader"]
    probe = _S["probe"]
    _S["n"] += 1
    nm = desc["nmods"]
    modnames = ["c37m%d_%d" % (_S["n"], i) for i in range(nm)]
    mods = []
    for n in modnames:
        m = types.ModuleType(n)
        m.OUT = []
        sys.modules[n] = m
        mods.append(m)
    own = [HyReader() for _ in range(nm)]
    repls = {}
    model = Model(nm)
    events, viols = [], []
    faults = {"use_before_definition": 0, "reader_macro_body_raises": 0, "compile_failure_mid_stream": 0,
              "failing_require_readers": 0, "defreader_without_active_reader": 0, "nested_read_inside_reader_macro": 0}
    probes_ = {"ops": 0, "forms": 0, "uses_resolved": 0, "cross_module_requires": 0, "lazy_position_probes": 0,
               "isolation_probes": 0, "ops_after_failure": 0, "none_returning_uses": 0}
    failed_before = False
    nontrivial = False
    seq = []
    uid = 0
    sink = io.StringIO()

    def fmt(src):
        for i, n in enumerate(modnames):
            src = src.replace("{MOD%d}" % i, n)
        return src

    try:
        for oi, op in enumerate(desc["ops"]):
            probes_["ops"] += 1
            if failed_before:
                probes_["ops_after_failure"] += 1
            mi = op["mod"]
            M = mods[mi]
            del M.OUT[:]
            if op["fe"] == "noreader":
                # evaluate a pre-read defreader model while no reader is active
                faults["defreader_without_active_reader"] += 1
                tag = model.tag(mi, op["name"])
                form = hy.read(render_def(op["name"], tag), reader=HyReader())
                if hasattr(form, "reader"):
                    del form.reader
                try:
                    hy.eval(form, module=M)
                    got_err = None
                except BaseException as e:
                    got_err = type(e).__name__
                model.tables[mi][op["name"]] = tag
                if got_err:
                    viols.append({"clause": "no_reader_definition", "sig": got_err, "detail": {"op": oi, "error": got_err}})
                events.append([oi, "noreader", mi, op["name"], got_err])
                seq.append(("noreader", got_err))
            else:
                fe = op["fe"]
                if fe == "repl":
                    if mi not in repls:
                        with contextlib.redirect_stdout(sink), contextlib.redirect_stderr(sink):
                            repls[mi] = hy.REPL(locals={"__name__": modnames[mi]})
                        model.readers[("repl", mi)] = dict(model.tables[mi])
                    Rm = model.readers[("repl", mi)]
                    reader = None
                elif op["reader"] == "own":
                    Rm = model.readers[("own", mi)]
                    reader = own[mi]
                else:
                    Rm = {}
                    reader = HyReader()
                forms = [list(f) for f in op["forms"]]
                op2 = dict(op, forms=forms)
                before_tables = {i: dict(t) for i, t in model.tables.items()}
                model.nested_jobs = {}
                model.rt_actions = []
                pause = op.get("pause") if fe == "iter" else None
                pause_tag = None
                if pause:
                    k_ = pause["at"]
                    recs, err = model.process(dict(op2, forms=forms[:k_]), Rm, uid)
                    if err is None:
                        pause_tag = model.tag(pause["mod"], pause["name"])
                        model.tables[pause["mod"]][pause["name"]] = pause_tag   # no reader is active: only the module table
                        tail = forms[k_:]
                        recs2, err = model.process(dict(op2, forms=tail), Rm, uid + k_)
                        forms[k_:] = tail
                        recs = recs + recs2
                else:
                    recs, err = model.process(op2, Rm, uid)
                if err is None and fe in ("lazy", "repl"):
                    # the whole stream is compiled first and run afterwards.  At run time, in source order, require
                    # transfers again whatever the source module's table holds by then, and defreader (an
                    # eval-and-compile) registers its definition again -- so a definition written after a require of
                    # the same name in one stream is the one that stays
                    for a in model.rt_actions:
                        if a[0] == "req":
                            src_t = model.tables[a[1]]
                            for n_ in (sorted(src_t) if a[2] == "*" else a[2]):
                                if n_ in src_t:
                                    model.tables[mi][n_] = src_t[n_]
                        else:
                            model.tables[mi][a[1]] = a[2]
                probe.jobs.clear()
                for k_, (j_, text_) in model.nested_jobs.items():
                    probe.jobs[k_] = (lambda j=j_, text=text_: hy.eval(hy.read_many(text, reader=own[j]), module=mods[j]))
                    faults["nested_stream_inside_compile"] = faults.get("nested_stream_inside_compile", 0) + 1
                nform = len(forms)
                srcs = [fmt(r[2]) for r in recs] + ([fmt(err[2])] if err else [])
                uid += nform
                probes_["forms"] += len(srcs)
                # expected OUT
                vals = [r[1] for r in recs if r[0] in ("use", "plain")]
                if fe in ("lazy", "repl"):
                    want_out = vals if err is None else []
                else:
                    want_out = vals
                # run
                got_err = None
                pos_log = []
                if fe == "lazy":
                    parts = []
                    offsets = []
                    text = ""
                    for k, s_ in enumerate(srcs):
                        text += s_ + "\n"
                        if op.get("pos"):
                            text += f"(eval-when-compile (hy.I.c37probe.pos {k}))\n"
                        offsets.append(len(text))
                    st = PosStream(text)
                    probe.stream = st
                    del probe.log[:]
                    try:
                        hy.eval(hy.read_many(st, reader=reader), module=M)
                    except BaseException as e:
                        got_err = e
                    finally:
                        probe.stream = None
                    pos_log = list(probe.log)
                    if op.get("pos"):
                        for k, p in pos_log:
                            probes_["lazy_position_probes"] += 1
                            if p > offsets[k] + 1:
                                viols.append({"clause": "stream_order", "sig": "read_ahead",
                                              "detail": {"op": oi, "form": k, "stream_position_when_compiled": p,
                                                         "end_of_form_and_probe": offsets[k], "text": text[:600]}})
                                break
                elif fe == "iter":
                    st = io.StringIO("\n".join(srcs) + "\n")
                    try:
                        it = iter(hy.read_many(st, reader=reader))
                        n_done = 0
                        while True:
                            if pause_tag is not None and n_done == pause["at"]:
                                faults["defreader_while_another_stream_is_suspended"] = faults.get("defreader_while_another_stream_is_suspended", 0) + 1
                                pf = hy.read(render_def(pause["name"], pause_tag), reader=HyReader())
                                if hasattr(pf, "reader"):
                                    del pf.reader
                                hy.eval(pf, module=mods[pause["mod"]])
                            try:
                                f1 = next(it)
                            except StopIteration:
                                break
                            hy.eval(f1, module=M)
                            n_done += 1
                    except BaseException as e:
                        got_err = e
                elif fe == "onebyone":
                    st = io.StringIO("\n".join(srcs) + "\n")
                    try:
                        while True:
                            try:
                                f1 = hy.read(st, reader=reader)
                            except EOFError:
                                break
                            hy.eval(f1, module=M)
                    except BaseException as e:
                        got_err = e
                else:
                    rp = repls[mi]
                    prev_e = rp.locals.get(hy.mangle("*e"))
                    with contextlib.redirect_stdout(sink), contextlib.redirect_stderr(sink):
                        more = rp.runsource("\n".join(srcs) + "\n")
                    cur_e = rp.locals.get(hy.mangle("*e"))
                    if cur_e is not prev_e:
                        got_err = cur_e
                    if more:
                        got_err = RuntimeError("REPL asked for more input")
                # compare error
                if err is None:
                    if got_err is not None:
                        viols.append({"clause": "visibility", "sig": "unexpected_error:" + fe + ("_after_failure" if failed_before else ""),
                                      "detail": {"op": oi, "error": repr(got_err)[:300], "srcs": srcs, "reader": op["reader"],
                                                 "visible": sorted(Rm)}})
                else:
                    phase, what, _src = err
                    if phase == "read":
                        faults["use_before_definition" if what == "undefined" else "reader_macro_body_raises"] += 1
                        ok = isinstance(got_err, _S["Lex"]) and (("is not defined" in str(got_err)) == (what == "undefined"))
                    elif what == "HyRequireError":
                        faults["failing_require_readers"] += 1
                        ok = type(got_err).__name__ == "HyRequireError"
                    else:
                        faults["compile_failure_mid_stream"] += 1
                        ok = isinstance(got_err, _S["errors"].HyLanguageError)
                    if not ok:
                        viols.append({"clause": "visibility", "sig": "expected_" + what + ":" + fe,
                                      "detail": {"op": oi, "expected": what, "got": repr(got_err)[:300], "srcs": srcs,
                                                 "reader": op["reader"], "visible": sorted(Rm)}})
                    failed_before = True
                    nontrivial = True
                if list(M.OUT) != want_out:
                    viols.append({"clause": "produced_models", "sig": fe + ("_after_failure" if failed_before else ""),
                                  "detail": {"op": oi, "got": list(M.OUT)[:8], "expected": want_out[:8], "srcs": srcs,
                                             "reader": op["reader"]}})
                for r in recs:
                    if r[0] == "use":
                        probes_["uses_resolved"] += 1
                        if len(r[1]) == 2:
                            probes_["none_returning_uses"] += 1
                    if r[0] == "req":
                        probes_["cross_module_requires"] += 1
                        nontrivial = True
                if any("rnest" in s_ and "#rnest" in s_ for s_ in srcs):
                    faults["nested_read_inside_reader_macro"] += 1
                kinds = [f[0] for f in forms]
                events.append([oi, fe, op["reader"], mi, kinds, None if err is None else err[1],
                               None if got_err is None else type(got_err).__name__, len(M.OUT)])
                seq.append((fe, op["reader"], tuple(kinds), None if err is None else err[1]))
                if any(r[0] == "use" for r in recs) and oi > 0:
                    nontrivial = True
            # ---- invariants after every op
            cur = HyReader.current_reader(create=False)
            if cur is not None:
                viols.append({"clause": "current_reader_leak", "sig": "after_op" + ("_failed" if failed_before else ""),
                              "detail": {"op": oi}})
                HyReader._current_reader = None
            for i, m in enumerate(mods):
                have = sorted(getattr(m, "_hy_reader_macros", {}).keys())
                want = sorted(model.tables[i])
                if have != want:
                    viols.append({"clause": "module_reader_table", "sig": "module_%s" % ("same" if i == mi else "other"),
                                  "detail": {"op": oi, "module": i, "op_module": mi, "got": have, "expected": want}})
                    model.tables[i] = {n: model.tables[i].get(n, "?") for n in have}
            # a fresh, unrelated reader must not know any name
            fresh = HyReader()
            for n in NAMES:
                probes_["isolation_probes"] += 1
                try:
                    list(hy.read_many("#%s 1" % n, reader=fresh))
                    leaked = True
                except _S["Lex"] as e:
                    leaked = "is not defined" not in str(e)
                except BaseException:
                    leaked = True
                if leaked:
                    viols.append({"clause": "isolation", "sig": "fresh_reader_sees_" + KIND[n], "detail": {"op": oi, "name": n}})
                    break
            # each module's own reader knows exactly what the model says
            for i in range(nm):
                have = sorted(k for k in own[i].reader_macros if k in KIND)
                want = sorted(model.readers[("own", i)])
                if have != want:
                    viols.append({"clause": "isolation", "sig": "reader_of_%s_module" % ("same" if i == mi else "other"),
                                  "detail": {"op": oi, "reader_of_module": i, "op_module": mi, "got": have, "expected": want}})
                    model.readers[("own", i)] = {n: model.readers[("own", i)].get(n, "?") for n in have}
    finally:
        for n in modnames:
            sys.modules.pop(n, None)
        _S["HyReader"]._current_reader = None
    uniq = {}
    for v in viols:
        uniq.setdefault((v["clause"], v["sig"]), v)
    return {"events": events, "violations": list(uniq.values())[:5], "faults": faults, "probes": probes_,
            "sigs": [kernel.digest(seq)] if nontrivial else [], "steps": probes_["forms"]}


# ------------------------------------------------------------------ shrinking


def shrink(desc):
    ops = desc["ops"]
    n = len(ops)
    size = n // 2
    while size >= 1:
        for i in range(0, n, size):
            yield dict(desc, ops=ops[:i] + ops[i + size:])
        size //= 2
    for i, op in enumerate(ops):
        if "forms" in op:
            for j in range(len(op["forms"])):
                if len(op["forms"]) > 1:
                    yield dict(desc, ops=ops[:i] + [dict(op, forms=op["forms"][:j] + op["forms"][j + 1:])] + ops[i + 1:])
            if op.get("pos"):
                yield dict(desc, ops=ops[:i] + [dict(op, pos=False)] + ops[i + 1:])
            if op["fe"] != "lazy":
                yield dict(desc, ops=ops[:i] + [dict(op, fe="lazy", reader="own" if op["reader"] == "repl" else op["reader"])] + ops[i + 1:])
