"""C41 -- the hy command runs programs the same way from -c, a file, stdin and -m.

hy_main runs in forked children (engine `cli`) on a scratch world the simulator
owns: argv, the stdin pipe, the working directory, the program file / module and
the state of its bytecode cache (cold, then warm).  One run = one generated
program and argument vector executed through all four invocation modes, the
file and module modes twice (cache cold, cache warm), with Hy options placed
before the mode switch (must take effect) and option-like words after it (must
reach the program untouched).  Oracle: stdout and exit status equal the
by-construction expectation in every mode (hence equal across modes);
sys.argv[1:] is the given argument list; sys.argv[0] is what the documentation
gives for the mode.
"""
import importlib.util
import os
import shutil
import sys

from sim.engines import cli

PROPERTY = "C41"
LEVEL = "exploration"
ISOLATE = False
RUN_TIMEOUT = 300.0
RULE = ("one run = one generated program (prints, macro use, sys.argv, __name__, optional exit by sys.exit n / uncaught "
        "exception / reader error / compile error) x one argument vector (incl. option-like words) x Hy options before the "
        "mode switch, executed as -c, FILE (cold+warm cache), stdin, -m (cold+warm). Non-trivial = argument vector contains an "
        "option-like word or the program ends abnormally; distinct = distinct (program shape, argument vector, pre-options) digests")
REAL = ["hy.cmdline.hy_main / cmdline_handler / run_command, runhy.run_path, runpy.run_module, importer, compiler; a real "
        "forked process per invocation with real pipes"]
STUB = ["process launch (fork from a worker that has hy imported instead of exec of the `hy` script)",
        "argv, stdin, cwd, program files and cache state are chosen by the simulator"]
ASSUMPTIONS = ["no scheduler decision exists for this property: this is a configuration sweep over invocation modes and caches",
               "stderr text is not compared across modes (tracebacks legitimately differ), only that failures report something"]

_S = {}
OPTIONISH = ["-m", "-c", "--spy", "--", "-B", "-i", "-h", "--version", "-E", "-u", "-x", "--repl-output-fn=repr", "-", "-cfoo"]
PLAIN = ["a", "b c", "1", "foo.hy", "é", "", "x=y", "'q'"]


def setup_worker():
    if _S:
        return
    import hy
    import hy.cmdline
    _S["hy"] = hy
    _S["n"] = 0


def plan(tier):
    if tier == "thorough":
        return {"runs": 8000, "budget_s": 1500, "chunk": 6, "recheck": 6, "shrink_s": 150}
    return {"runs": 100, "budget_s": 240, "chunk": 2, "recheck": 4, "shrink_s": 60}


def generate(rng, tier):
    lines = []
    for i in range(rng.randrange(1, 6)):
        k = rng.choice(["str", "sum", "var", "macro", "loop", "nonl", "name", "argc", "sib", "err", "reader", "uni", "hook", "sibrt", "sibrd"])
        lines.append({"k": k, "a": rng.randrange(100), "b": rng.randrange(100)})
    end = rng.choice(["none", "none", "exit", "exit0", "exitmsg", "raise", "reader", "compile", "none", "raise_os", "raise_os",
                      "exitnone", "raise_os"])
    args = []
    for _ in range(rng.choice([0, 1, 2, 3, 4])):
        args.append(rng.choice(OPTIONISH) if rng.random() < 0.5 else rng.choice(PLAIN))
    pre = rng.choice([[], [], ["-B"], ["-B"], ["--spy"], ["-E"]])
    order = ["c", "file", "stdin", "m"]
    rng.shuffle(order)
    return {"lines": lines, "end": end, "code": rng.choice([2, 3, 7, 42, 255]), "args": args, "pre": pre, "order": order,
            "file_as": rng.choice(["plain", "dot", "abs", "dashdash"]),
            "spell": rng.choice(["plain", "plain", "cluster", "attached", "attached_eq"]),
            "os_kind": rng.randrange(14), "run_pyc": rng.random() < 0.3, "entry": rng.choice(["script", "module"]), "doc": rng.random() < 0.15, "alt_ext": rng.choice([None, None, None, "", "", ".txt", ".hyx"]), "m_hyphen": rng.random() < 0.3}


def render(desc):
    src = ["(import sys)"]
    out = []
    if desc.get("doc"):
        # the program starts with a docstring and reads it back
        src = ['"the docstring of this program"', "(import sys)", '(print "DOC" __doc__)']
        out.append("DOC the docstring of this program")
    errs = []
    hooked = False
    src.append('(print "ARGV0" (get sys.argv 0))')
    src.append('(print "ARGS" (cut sys.argv 1 None))')
    src.append('(print "DWB" sys.dont_write_bytecode)')
    for i, l in enumerate(desc["lines"]):
        k, a, b = l["k"], l["a"], l["b"]
        if k == "str":
            src.append(f'(print "s{a}")')
            out.append(f"s{a}")
        elif k == "sum":
            src.append(f"(print (+ {a} {b}))")
            out.append(str(a + b))
        elif k == "var":
            src.append(f"(setv v{i} {a}) (print (* v{i} 2))")
            out.append(str(a * 2))
        elif k == "macro":
            src.append(f"(defmacro m{i} [x] `(+ ~x {b}))\n(print (m{i} {a}))")
            out.append(str(a + b))
        elif k == "loop":
            src.append(f"(for [i (range {a % 4})] (print \"i\" i))")
            out += [f"i {j}" for j in range(a % 4)]
        elif k == "nonl":
            src.append(f'(print "n{a}" :end "")\n(print)')
            out.append(f"n{a}")
        elif k == "name":
            src.append("(print __name__)")
            out.append("__main__")
        elif k == "argc":
            src.append("(print (len sys.argv))")
            out.append(str(len(desc["args"]) + 1))
        elif k == "sib":
            # a sibling module of the working directory: function import and macro require must work in every mode
            src.append(f"(import SIBLING [sf]) (require SIBLING [sm])\n(print (sm (sf {a})))")
            out.append(str([a + 1, "sib"]))
        elif k == "sibrt":
            # ... and the required macro must also be there at RUN time (hy.eval looks it up in the running module)
            src.append(f"(require SIBLING [sm :as rsm{i}])\n(print (hy.eval '(rsm{i} {a})))")
            out.append(str([a, "sib"]))
        elif k == "sibrd":
            # one require entry for macros AND reader macros of the sibling; both used, the macro also at run time
            src.append(f"(require SIBLING :macros [sm :as dsm{i}] :readers [sr])\n(print (hy.eval '(dsm{i} {a})) #sr (dsm{i} {b}))")
            out.append(f"{[a, 'sib']} rd {[b, 'sib']}")
        elif k == "err":
            src.append(f'(print "e{a}" :file sys.stderr)')
            errs.append(f"e{a}")
        elif k == "reader":
            src.append(f"(defreader r{i} '(+ {a} {b}))\n(print #r{i})")
            out.append(str(a + b))
        elif k == "hook":
            # the program installs its own excepthook: an uncaught exception must reach it in every mode
            if not hooked:
                src.append('(setv sys.excepthook (fn [t v tb] (print "HOOK" (. t __name__))))')
                hooked = True
        elif k == "uni":
            src.append(f'(setv \u00e9t\u00e9{i} "\u2603{a}") (print \u00e9t\u00e9{i} (len \u00e9t\u00e9{i}))')
            out.append(f"\u2603{a} {len(str(a)) + 1}")
    status = 0
    early = False  # failure before any output (whole program is read/compiled first)
    e = desc["end"]
    if e == "exit":
        src.append(f"(sys.exit {desc['code']})")
        status = desc["code"]
    elif e == "exit0":
        src.append("(sys.exit 0)")
    elif e == "exitmsg":
        src.append('(sys.exit "bye")')
        status = 1
    elif e == "raise":
        src.append('(raise (ValueError "boom"))')
        status = 1
    elif e == "raise_os":
        # exceptions that the command line itself also knows how to raise / handle
        kinds = [("(open \"/nonexistent-dir/zz\")", "FileNotFoundError"), ("(raise (FileNotFoundError 2 \"nope\" \"other.hy\"))", "FileNotFoundError"),
                 ("(raise (SystemError \"s\"))", "SystemError"), ("(raise (KeyboardInterrupt))", "KeyboardInterrupt"),
                 ("(raise (ImportError \"no mod\"))", "ImportError"), ("(import no-such-module-zz)", "ModuleNotFoundError"),
                 ("(raise (FileNotFoundError \"just a message\"))", "FileNotFoundError"), ("(raise (FileNotFoundError 2 \"nope\"))", "FileNotFoundError"),
                 ("(raise (IsADirectoryError 21 \"dir\" \"x\"))", "IsADirectoryError"),
                 ("(raise (OSError 5 \"io failed\"))", "OSError"), ("(raise (OSError \"bare\"))", "OSError"),
                 ("(raise (PermissionError 13 \"denied\"))", "PermissionError"), ("(import os) (os.write 987 b\"x\")", "OSError"),
                 ("(raise (BrokenPipeError 32 \"pipe\"))", "BrokenPipeError")]
        form, exc_name = kinds[desc.get("os_kind", desc["code"]) % len(kinds)]
        src.append(form)
        status = 1
    elif e == "exitnone":
        src.append("(sys.exit None)")
    elif e == "reader":
        src.append('(print "unclosed"')
        status, early = 1, True
    elif e == "compile":
        src.append("(if)")
        status, early = 1, True
    exc_name = locals().get("exc_name") or ("ValueError" if e == "raise" else None)
    if e in ("exit", "exit0", "exitmsg", "raise", "none", "raise_os", "exitnone"):
        src.append('(print "unreachable")' if e != "none" else '(print "done")')
        if e == "none":
            out.append("done")
    if hooked and e in ("raise", "raise_os") and exc_name:
        out.append("HOOK " + exc_name)
        exc_name = None     # the program's hook prints to stdout instead of a traceback on stderr
        quiet = True
    else:
        quiet = False
    return "\n".join(src) + "\n", out, status, early, errs, exc_name, quiet


def execute(desc):
    setup_worker()
    from sim import kernel
    _S["n"] += 1
    base = os.environ.get("VERIF_SCRATCH") or "/tmp"
    root = os.path.join(base, "cli-%d-%d" % (os.getpid(), _S["n"]))
    shutil.rmtree(root, ignore_errors=True)
    os.makedirs(root)
    modname = "p%d_x%d" % (os.getpid() % 100000, _S["n"])
    path = os.path.join(root, modname + ".hy")
    text, exp_out, exp_status, early, exp_errs, exc_name, quiet = render(desc)
    sib = "sib_" + modname
    text = text.replace("SIBLING", sib)
    with open(path, "w", encoding="utf-8") as f:
        f.write(text)
    with open(os.path.join(root, sib + ".hy"), "w") as f:
        f.write('(defn sf [x] (+ x 1))\n(defmacro sm [x] `[~x "sib"])\n(defreader sr \'"rd")\n')
    pyc = importlib.util.cache_from_source(path)
    pyc_copy = os.path.join(root, modname + "_bc.pyc")
    alt_path = os.path.join(root, modname + "_alt" + (desc.get("alt_ext") or ""))
    viols, events = [], []
    faults = {"abnormal_program_end": int(desc["end"] not in ("none",)), "option_like_argument": sum(a.startswith("-") for a in desc["args"])}
    probes = {"invocations": 0, "cache_cold": 0, "cache_warm": 0, "pyc_present_after_cold_run": 0}
    args, pre = desc["args"], desc["pre"]
    try:
        def invoke(mode, tag):
            probes["invocations"] += 1
            stdin = ""
            fa = desc["file_as"]
            sp = desc.get("spell", "plain")
            dwb = "-B" in pre
            if mode == "c":
                if sp == "cluster":
                    argv = ["hy"] + pre + ["-Bc", text] + args
                    dwb = True
                elif sp == "attached":
                    argv = ["hy"] + pre + ["-c" + text] + args
                elif sp == "attached_eq":
                    argv = ["hy"] + pre + ["-c=" + text] + args
                else:
                    argv = ["hy"] + pre + ["-c", text] + args
                a0 = "-c"
            elif mode == "file":
                given = {"plain": modname + ".hy", "dot": "./" + modname + ".hy", "abs": path, "dashdash": modname + ".hy"}[fa]
                argv = ["hy"] + pre + (["--"] if fa == "dashdash" else []) + [given] + args
                a0 = given
            elif mode == "filealt":
                argv = ["hy"] + pre + [os.path.basename(alt_path)] + args
                a0 = os.path.basename(alt_path)
            elif mode == "filepyc":
                argv = ["hy"] + pre + [os.path.basename(pyc_copy)] + args
                a0 = os.path.basename(pyc_copy)
            elif mode == "stdin":
                argv = ["hy"] + pre + ["-"] + args
                a0 = "-"
                stdin = text
            else:
                # the documented module argument is a Hy name: hyphens are mangled
                mname = modname.replace("_", "-") if desc.get("m_hyphen") else modname
                if sp == "cluster":
                    argv = ["hy"] + pre + ["-Bm", mname] + args
                    dwb = True
                elif sp == "attached":
                    argv = ["hy"] + pre + ["-m" + mname] + args
                elif sp == "attached_eq":
                    argv = ["hy"] + pre + ["-m=" + mname] + args
                else:
                    argv = ["hy"] + pre + ["-m", mname] + args
                a0 = path
            status, out, err = cli.run_hy(argv, stdin, cwd=root, timeout=90, entry=desc.get("entry", "script"))
            if status is None:
                raise RuntimeError("harness: hy invocation timed out: %r" % (argv[:3],))
            got_lines = out.splitlines()
            head = {}
            body = []
            for ln in got_lines:
                if ln.startswith("ARGV0 ") and "ARGV0" not in head:
                    head["ARGV0"] = ln[6:]
                elif ln.startswith("ARGS ") and "ARGS" not in head:
                    head["ARGS"] = ln[5:]
                elif ln.startswith("DWB ") and "DWB" not in head:
                    head["DWB"] = ln[4:]
                else:
                    body.append(ln)
            want_body = [] if early else exp_out
            sig = mode + ("" if tag == "cold" else ":" + tag)
            if body != want_body:
                viols.append({"clause": "mode_output", "sig": sig,
                              "detail": {"mode": mode, "cache": tag, "argv": argv[:1] + pre + ["<%s>" % mode] + args, "got": body[-8:],
                                         "expected": want_body[-8:], "stderr": err[-400:]}})
            if status != exp_status:
                viols.append({"clause": "mode_outcome", "sig": sig,
                              "detail": {"mode": mode, "cache": tag, "status": status, "expected": exp_status, "stderr": err[-500:]}})
            if not early:
                if head.get("ARGS") != repr(args):
                    viols.append({"clause": "argv_tail", "sig": sig,
                                  "detail": {"mode": mode, "given": args, "program_saw": head.get("ARGS"), "pre": pre}})
                saw0 = head.get("ARGV0")
                if mode == "filepyc" and saw0 is not None and os.path.realpath(os.path.join(root, saw0)) == os.path.realpath(pyc_copy):
                    saw0 = a0
                if mode == "filealt" and saw0 is not None and os.path.realpath(os.path.join(root, saw0)) == os.path.realpath(alt_path):
                    saw0 = a0
                if mode == "file" and saw0 is not None:
                    # the docs only promise the arguments in (cut sys.argv 1); for a script hy passes the absolute
                    # path on to runpy, so argv[0] is accepted when it names the script, as given or resolved
                    if os.path.realpath(os.path.join(root, saw0)) == os.path.realpath(path):
                        saw0 = a0
                if saw0 != a0:
                    viols.append({"clause": "argv0", "sig": sig,
                                  "detail": {"mode": mode, "program_saw": head.get("ARGV0"), "documented": a0}})
                if head.get("DWB") != repr(dwb):
                    viols.append({"clause": "option_before_mode_switch", "sig": sig,
                                  "detail": {"mode": mode, "pre": pre, "dont_write_bytecode": head.get("DWB")}})
            if exp_status != 0 and desc["end"] != "exit" and not quiet and not err.strip():
                viols.append({"clause": "failure_not_reported", "sig": sig, "detail": {"mode": mode, "end": desc["end"]}})
            if not early:
                # what the program itself wrote to stderr, and the name of the exception that ended it
                err_lines = err.splitlines()
                if [l for l in err_lines if l in exp_errs] != exp_errs:
                    viols.append({"clause": "mode_stderr", "sig": sig, "detail": {"mode": mode, "expected_lines": exp_errs, "stderr": err[-400:]}})
                if exc_name and not any(l.startswith(exc_name) or ("." + exc_name) in l.split(":")[0] for l in err_lines):
                    viols.append({"clause": "failure_not_reported", "sig": sig + ":exception_name",
                                  "detail": {"mode": mode, "expected_exception": exc_name, "stderr": err[-500:]}})
            events.append([mode, tag, status, len(body), head.get("ARGV0", "")[-20:] if mode in ("c", "stdin") else ""])

        for mode in desc["order"]:
            if mode in ("file", "m"):
                try:
                    os.remove(pyc)
                except OSError:
                    pass
                probes["cache_cold"] += 1
                invoke(mode, "cold")
                if os.path.exists(pyc):
                    probes["pyc_present_after_cold_run"] += 1
                probes["cache_warm"] += 1
                invoke(mode, "warm")
                if mode == "file" and desc.get("alt_ext") is not None:
                    # the same program under a name without suffix / with a foreign suffix: still a Hy script
                    probes["alt_suffix_file_runs"] = probes.get("alt_suffix_file_runs", 0) + 1
                    shutil.copyfile(path, alt_path)
                    invoke("filealt", "alt")
                    invoke("filealt", "alt-warm")
                if mode == "file" and desc.get("run_pyc") and os.path.exists(pyc) and not early:
                    # `hy FILE` where FILE is the byte-compiled program (as `python prog.pyc`)
                    # (a copy next to the program, so that the script directory -- sys.path[0] -- is the same)
                    probes["bytecode_file_runs"] = probes.get("bytecode_file_runs", 0) + 1
                    shutil.copyfile(pyc, pyc_copy)
                    invoke("filepyc", "pyc")
            else:
                invoke(mode, "cold")
    finally:
        shutil.rmtree(root, ignore_errors=True)
        try:
            os.remove(pyc)
        except OSError:
            pass
    uniq = {}
    for v in viols:
        uniq.setdefault((v["clause"], v["sig"]), v)
    nontrivial = faults["abnormal_program_end"] or faults["option_like_argument"]
    shape = [[l["k"] for l in desc["lines"]], desc["end"], desc["args"], desc["pre"], desc["file_as"]]
    return {"events": events, "violations": list(uniq.values())[:6], "faults": faults, "probes": probes,
            "sigs": [kernel.digest(shape)] if nontrivial else [], "steps": probes["invocations"]}


def shrink(desc):
    for i in range(len(desc["lines"])):
        yield dict(desc, lines=desc["lines"][:i] + desc["lines"][i + 1:])
    for i in range(len(desc["args"])):
        yield dict(desc, args=desc["args"][:i] + desc["args"][i + 1:])
    if desc["pre"]:
        yield dict(desc, pre=[])
    if desc["end"] != "none":
        yield dict(desc, end="none")
    if desc["file_as"] != "plain":
        yield dict(desc, file_as="plain")
    if desc.get("spell", "plain") != "plain":
        yield dict(desc, spell="plain")
    if desc.get("run_pyc"):
        yield dict(desc, run_pyc=False)
    if desc.get("doc"):
        yield dict(desc, doc=False)
    if desc.get("entry") == "module":
        yield dict(desc, entry="script")
    if desc.get("alt_ext") is not None:
        yield dict(desc, alt_ext=None)
    for i in range(len(desc["order"])):
        if len(desc["order"]) > 1:
            yield dict(desc, order=desc["order"][:i] + desc["order"][i + 1:])
