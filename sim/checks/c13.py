"""C13 -- compiling the same source is deterministic across processes.

The only nondeterminism the property names is what differs between interpreter
processes: hash randomisation (PYTHONHASHSEED) and object addresses.  The
simulator owns the process-launch seam: one run = one batch of generated
programs (plus, in run 0, the repo's own Hy sources) compiled in the same order
in several FRESH interpreters, each under its own seeded PYTHONHASHSEED; for
every source the AST dump and a canonical bytecode digest must be identical in
all of them.
"""
import glob
import json
import os
import subprocess
import sys

PROPERTY = "C13"
LEVEL = "exploration"
ISOLATE = False
RUN_TIMEOUT = 600.0
RULE = ("one run = a batch of generated programs (biased to constructs that walk sets of names: nonlocal/global with names "
        "split between enclosing functions and module level, comprehensions leaking several setx names, nested let, match "
        "captures, keyword arguments, defclass, imports, try/with) compiled in k fresh interpreters with distinct "
        "PYTHONHASHSEED values; evaluations = programs x interpreters. Non-trivial program = contains at least one "
        "name-set construct with >= 2 names; distinct = distinct program texts among those")
REAL = ["hy reader, macro expander, compiler (hy_compile), CPython compile(); a fresh /venv/bin/python process per hash seed"]
STUB = ["the process launcher (chooses PYTHONHASHSEED per interpreter from the run seed)"]
ASSUMPTIONS = ["bytecode compared through a canonical walk of the code object (frozenset constants sorted), because marshal's "
               "byte stream depends on refcounts/iteration order CPython controls; raw marshal equality is reported as information"]

NAMES = ["alpha", "beta", "gamma", "delta", "eps", "zeta", "eta", "theta", "g", "h", "k", "x1", "y2", "n", "total", "acc",
         "a-b", "is-ok?", "*star*", "é"]


def setup_worker():
    # populate the throw-away pycache prefix once, so the fresh interpreters (which never write bytecode:
    # they would race on the same files) load hy's own modules from cache instead of recompiling them
    import hy
    import hy.compiler
    import hy.reader
    import hy.core.result_macros
    import hy.core.macros
    import hy.core.util
    import hy.core.hy_repr
    import hy.pyops


def plan(tier):
    if tier == "thorough":
        return {"runs": 400, "budget_s": 1500, "chunk": 1, "recheck": 3, "shrink_s": 240}
    return {"runs": 32, "budget_s": 240, "chunk": 1, "recheck": 2, "shrink_s": 90}


# ------------------------------------------------------------------ program generator


def pick(rng, lo, hi, pool=None):
    pool = pool or NAMES
    return rng.sample(pool, rng.randint(lo, min(hi, len(pool))))


def snip_nonlocal(rng, uid):
    fn_names = pick(rng, 2, 5)
    rest = [n for n in NAMES if n not in fn_names]
    mod_names = pick(rng, 0, 3, rest)
    decl = fn_names + mod_names
    rng.shuffle(decl)
    k = rng.randint(2, len(decl)) if len(decl) >= 2 else len(decl)
    decl = decl[:k]
    src = ""
    if mod_names:
        src += "(setv " + " ".join(f"{n} 0" for n in mod_names) + ")\n"
    mid = rng.random() < 0.4
    src += f"(defn outer{uid} []\n  (setv " + " ".join(f"{n} 1" for n in fn_names) + ")\n"
    if mid:
        src += "  (defn middle []\n"
    src += ("    " if mid else "  ") + "(defn inner []\n      (nonlocal " + " ".join(decl) + ")\n      (setv " + \
        " ".join(f"{n} 2" for n in decl) + "))\n"
    if mid:
        src += "    (inner))\n  (middle)\n"
    else:
        src += "  (inner)\n"
    src += "  [" + " ".join(fn_names) + "])\n"
    return src, len(decl)


def snip_global(rng, uid):
    names = pick(rng, 2, 6)
    return (f"(defn setglob{uid} []\n  (global " + " ".join(names) + ")\n  (setv " + " ".join(f"{n} {i}" for i, n in enumerate(names)) +
            "))\n"), len(names)


def snip_comp(rng, uid):
    names = pick(rng, 2, 5)
    kind = rng.choice(["lfor", "sfor", "gfor", "dfor"])
    style = rng.choice(["expr", "stmt", "stmt", "nonlocal"])
    if style == "expr":
        body = "[" + " ".join(f"(setx {n} (+ it {i}))" for i, n in enumerate(names)) + "]"
    else:
        # statements in the body force the comprehension into a generator function, whose leaked names are
        # declared global/nonlocal from ScopeGen.finalize()
        body = "(do " + " ".join((f"(setv {n} (+ it {i}))" if i % 2 else f"(setx {n} (+ it {i}))") for i, n in enumerate(names)) + \
            " [" + " ".join(names) + "])"
    outer = []
    if style == "nonlocal":
        outer = pick(rng, 2, 4, [n for n in NAMES if n not in names])
        body = "(do (nonlocal " + " ".join(outer) + ") (setv " + " ".join(f"{n} it" for n in outer) + ") " + body + ")"
    if kind == "dfor":
        comp = f"(dfor it (range 3) it {body})"
    else:
        comp = f"({kind} it (range 3) :if (> it 0) {body})"
    if style != "nonlocal" and rng.random() < 0.5:
        return f"(setv comp{uid} {comp})\n[" + " ".join(names) + "]\n", len(names)
    pre = ("(setv " + " ".join(f"{n} 0" for n in outer) + ") ") if outer else ""
    return f"(defn compf{uid} []\n  {pre}(setv r {comp})\n  [r " + " ".join(names) + "])\n", max(len(names), len(outer))


def snip_let(rng, uid):
    a = pick(rng, 2, 4)
    b = pick(rng, 2, 4)
    decl = sorted(set(a + b))
    rng.shuffle(decl)
    src = "(let [" + " ".join(f"{n} {i}" for i, n in enumerate(a)) + "]\n  (let [" + " ".join(f"{n} (+ {a[0]} {i})" for i, n in enumerate(b)) + \
        f"]\n    (defn letf{uid} [] (nonlocal " + " ".join(decl) + ") (setv " + \
        " ".join(f"{n} 9" for n in sorted(set(a + b))) + "))\n    [" + " ".join(a + b) + "]))\n"
    return src, len(set(a + b))


def snip_match(rng, uid):
    names = pick(rng, 3, 6)
    a, b, rest = names[0], names[1], names[2]
    extra = names[3:]
    src = f"(defn m{uid} [v]\n  (match v\n    [{a} {b} #* {rest}] [{a} {b} {rest}]\n    {{\"k\" {a} \"j\" {b} #** {rest}}} [{a} {b} {rest}]\n"
    if extra:
        src += "    (| " + " ".join(f"[{i} " + " ".join(extra) + "]" for i in range(2)) + ") [" + " ".join(extra) + "]\n"
    src += "    _ None))\n"
    return src, len(names)


def snip_call(rng, uid):
    names = pick(rng, 2, 6)
    return (f"(defn kw{uid} [" + " ".join(f"[{n} {i}]" for i, n in enumerate(names)) + " #* args #** kwargs]\n  (dict " +
            " ".join(f":{n} {n}" for n in reversed(names) if not any(c in n for c in "?*")) + " #** kwargs))\n" +
            f"(kw{uid} " + " ".join(f":{n} {i}" for i, n in enumerate(pick(rng, 1, len(names), names)) if not any(c in n for c in "?*")) + ")\n"), len(names)


def snip_class(rng, uid):
    names = pick(rng, 2, 5)
    src = f"(defclass K{uid} [object]\n  (setv " + " ".join(f"{n} {i}" for i, n in enumerate(names)) + ")\n"
    for n in names[:3]:
        src += f"  (defn get-{n.strip('*?')} [self] (global " + " ".join(pick(rng, 1, 3)) + f") self.{n})\n"
    return src + ")\n", len(names)


def snip_import(rng, uid):
    mods = rng.sample(["os", "sys", "math", "json", "re", "itertools"], rng.randint(2, 4))
    src = "(import " + " ".join(mods) + ")\n(import os.path [join :as pj basename dirname] collections [OrderedDict defaultdict :as dd])\n"
    src += "(require hy.core.macros [when :as w" + str(uid) + " unless])\n"
    return src, len(mods)


def snip_local_require(rng, uid):
    how = rng.choice(["*", ":as cm%d" % uid, "", "[when unless :as u%d cond]" % uid])
    where = rng.choice(["defn", "defclass", "lfor"])
    req = f"(require hy.core.macros {how})"
    if where == "defn":
        return f"(defn lr{uid} [x]\n  {req}\n  (when x 1))\n", 3
    if where == "defclass":
        return f"(defclass LR{uid} []\n  {req}\n  (setv attr 1))\n", 3
    return f"(setv lrv{uid} (lfor q (range 2) (do {req} q)))\n", 3


def snip_trywith(rng, uid):
    names = pick(rng, 2, 4)
    src = f"(defn tw{uid} []\n  (try\n    (with [" + " ".join(f"{n} (open \"f{i}\")" for i, n in enumerate(names)) + "] [" + " ".join(names) + \
        "])\n    (except [e [ValueError KeyError OSError]] (del e) None)\n    (except [[TypeError IndexError]] 1)\n    (finally (del " + \
        " ".join(names[:1]) + "))))\n"
    return src, len(names)


def snip_closure(rng, uid):
    names = pick(rng, 2, 5)
    return (f"(defn cl{uid} [" + " ".join(names) + "]\n  (fn [] [" + " ".join(reversed(names)) + "])\n  (fn [q] (+ q " + names[0] + ")))\n"), len(names)


def snip_misc(rng, uid):
    names = pick(rng, 2, 4)
    return ("(setv [" + " ".join(names) + "] (range " + str(len(names)) + "))\n#{" + " ".join(names) + " 1 2 \"s\" :kw}\n{" +
            " ".join(f"\"{n}\" {n}" for n in names) + "}\n(del " + " ".join(names) + f")\nf\"{{{names[0] if False else 1} !r:>5}}\"\n"), len(names)


def snip_local_macros(rng, uid):
    # several local macros in scope, handed on with (local-macros); get-macro of each
    names = pick(rng, 2, 5, ["ma", "mb", "m-c", "md?", "me", "zz", "a1"])
    defs = " ".join(f"(defmacro {n} [] {i})" for i, n in enumerate(names))
    inner = ""
    if rng.random() < 0.5:
        more = pick(rng, 1, 3, ["in1", "in2", "in-3"])
        inner = "(defn nested [] " + " ".join(f"(defmacro {n} [] 9)" for n in more) + " (hy.eval '(+ 1 1) :macros (local-macros))) "
    return (f"(defn lm{uid} []\n  {defs}\n  {inner}(hy.eval '({names[0]}) :macros (local-macros))\n  [" +
            " ".join(f"(get-macro {n})" for n in names) + "])\n"), len(names)


def snip_quote(rng, uid):
    # quoted / quasiquoted models of every kind, with their extra attributes (f-string conversions, specs, brackets)
    names = pick(rng, 2, 4)
    a, b = names[0], names[1]
    parts = [f'f"{{{a} !r:>5}} {{{b} =}} {{{a} !s}} {{(+ {a} 1) :^{{{b}}}}}"', f'#[f[{{{a} !a}} t]f]', f"#{{1 2 {a} :kw}}", f"{{:k {a} \"s\" [{b}]}}",
             f"#({a} {b} #* {a})", f"(f :x {a} #** {b})", f'#[d[{a}]d]', 'b"bytes"', "1.5", "2j", f"'{a}", f"`(~{a} ~@{b})"]
    chosen = rng.sample(parts, rng.randint(3, len(parts)))
    q = rng.choice(["'", "`"])
    src = f"(setv q{uid} {q}(" + " ".join(chosen) + "))\n"
    if rng.random() < 0.5:
        src += f"(defmacro qm{uid} [{a} {b}] `(do (setv tmp{uid} [~{a} ~@{b}]) f\"{{~{a} !r}}\" tmp{uid}))\n(qm{uid} 1 [2 3])\n"
    return src, len(chosen)


def snip_defs(rng, uid):
    # decorators, annotations, type parameters, keyword-only / positional-only parameters, async, star imports
    names = pick(rng, 3, 6)
    a, b, c = names[0], names[1], names[2]
    ann = " ".join(f"#^ int {n}" for n in names[:3])
    src = (f"(defn [staticmethod (fn [f] f)] #^ int dec{uid} [{a} / {b} * {c}] (annotate q{uid} int) [{a} {b} {c}])\n"
           f"(defn :async as{uid} [{ann}] (for [:async it (ag)] (setv {a} it)) (with [:async cm (acm) o (sm)] (await (f {b}))) {c})\n"
           f"(defclass :tp [T U] Gen{uid} [] (setv #^ T {a} None) (defn :tp [V] meth [self #^ V {b}] {b}))\n"
           f"(deftype :tp [K] Alias{uid} (get dict #(K int)))\n"
           f"(export :objects [{a} {b}] :macros [])\n")
    return src, len(names)


SNIPS = [snip_local_macros, snip_quote, snip_quote, snip_defs, snip_nonlocal, snip_nonlocal, snip_nonlocal, snip_global, snip_comp, snip_comp, snip_let, snip_match, snip_call,
         snip_class, snip_import, snip_local_require, snip_trywith, snip_closure, snip_misc]


def gen_program(rng, uid):
    parts = []
    m = 0
    for j in range(rng.randint(1, 4)):
        s, k = rng.choice(SNIPS)(rng, uid * 10 + j)
        parts.append(s)
        m = max(m, k)
    return "".join(parts), m


def generate(rng, tier):
    nprog = 40 if tier == "quick" else 60
    programs = []
    for i in range(nprog):
        src, m = gen_program(rng, i)
        programs.append({"src": src, "names": m})
    nseeds = 6 if tier == "quick" else 12
    seeds = [0, 1, 2, 3][: min(4, nseeds)] + [rng.randrange(4, 2 ** 32 - 1) for _ in range(nseeds - 4)]
    return {"programs": programs, "hashseeds": seeds, "repo_corpus": rng.random() < 0.15,
            "cold_index": rng.randrange(1, nseeds) if rng.random() < 0.6 else None}


# ------------------------------------------------------------------ execution


def _spawn(seed, payload, cold=False):
    from sim import kernel
    env = kernel.fresh_env(seed)
    env["PYTHONDONTWRITEBYTECODE"] = "1"  # many interpreters share the pycache prefix: read it, never race on writes
    if cold:
        # this interpreter finds no cached bytecode at all: hy's own Hy sources (core macros ...) are compiled from
        # source first, the others load them from the cache -- the compiled output must not depend on that
        import tempfile
        env["PYTHONPYCACHEPREFIX"] = tempfile.mkdtemp(prefix="c13-cold-", dir=os.environ.get("VERIF_SCRATCH") or None)
    p = subprocess.Popen([kernel.PYTHON, os.path.join(kernel.VERIF_DIR, "sim", "engines", "procs_worker.py")],
                         stdin=subprocess.PIPE, stdout=subprocess.PIPE, stderr=subprocess.PIPE, env=env, text=True,
                         cwd=os.environ.get("VERIF_SCRATCH") or "/tmp")
    return p


def _corpus():
    from sim import kernel
    out = []
    for f in sorted(glob.glob(os.path.join(kernel.REPO, "hy", "core", "*.hy")) + [os.path.join(kernel.REPO, "hy", "pyops.hy")]):
        rel = os.path.relpath(f, kernel.REPO)
        name = rel[:-3].replace(os.sep, ".")
        out.append({"src": open(f).read(), "name": "c13corpus_" + name.replace(".", "_"), "file": rel, "names": 2})
    return out


def execute(desc, dump=None):
    from sim import kernel
    programs = list(desc["programs"])
    if desc.get("repo_corpus"):
        programs = _corpus() + programs
    payload = json.dumps({"sources": [{"src": p["src"], "name": p.get("name", "c13_mod_%d" % i), "file": p.get("file")}
                                      for i, p in enumerate(programs)], "dump": dump or []})
    cold = desc.get("cold_index")
    procs = [(s, _spawn(s, payload, cold=(cold is not None and k == cold % len(desc["hashseeds"]) and k > 0)))
             for k, s in enumerate(desc["hashseeds"])]
    results = {}
    for s, p in procs:
        try:
            out, err = p.communicate(payload, timeout=RUN_TIMEOUT)
        except subprocess.TimeoutExpired:
            p.kill()
            raise RuntimeError("harness: interpreter with PYTHONHASHSEED=%s timed out" % s)
        if p.returncode != 0:
            raise RuntimeError("harness: interpreter with PYTHONHASHSEED=%s failed: %s" % (s, err[-800:]))
        results[s] = json.loads(out)["results"]
    seeds = desc["hashseeds"]
    base = results[seeds[0]]
    viols = []
    events = []
    faults = {"fresh_interpreters": len(seeds), "distinct_hash_seeds": len(set(seeds)),
              "interpreter_with_cold_bytecode_cache": int(cold is not None)}
    probes = {"programs": len(programs), "compilations": len(programs) * len(seeds), "programs_with_compile_error": 0,
              "raw_marshal_mismatches_info": 0, "programs_with_nameset_ge_3": 0}
    sigs = []
    for i, prog in enumerate(programs):
        b = base[i]
        if "error" in b:
            probes["programs_with_compile_error"] += 1
        if prog.get("names", 0) >= 3:
            probes["programs_with_nameset_ge_3"] += 1
        if prog.get("names", 0) >= 2 and "error" not in b:
            sigs.append(kernel.digest(prog["src"]))
        events.append([i, b.get("ast"), b.get("code"), b.get("error", "")[:60]])
        for s in seeds[1:]:
            r = results[s][i]
            for key, clause in (("error", "error_differs"), ("ast", "ast_differs"), ("code", "bytecode_differs")):
                if r.get(key) != b.get(key):
                    viols.append({"clause": clause, "sig": _construct_of(prog["src"]),
                                  "detail": {"program": i, "file": prog.get("file"), "hashseeds": [seeds[0], s],
                                             "src": prog["src"][:1500] if not prog.get("file") else prog.get("file")}})
                    break
            else:
                if r.get("marshal") != b.get("marshal"):
                    probes["raw_marshal_mismatches_info"] += 1
                continue
            break
    uniq = {}
    for v in viols:
        uniq.setdefault((v["clause"], v["sig"]), v)
    viols = list(uniq.values())[:4]
    # attach the first differing AST fragment to the first violation
    if viols and dump is None:
        v = viols[0]
        i = v["detail"]["program"]
        d2 = dict(desc, hashseeds=v["detail"]["hashseeds"])
        try:
            again = _dumps(d2, i)
            v["detail"]["first_difference"] = again
        except Exception as e:
            v["detail"]["first_difference"] = "unavailable: %r" % (e,)
    return {"events": events, "violations": viols, "faults": faults, "probes": probes, "sigs": sigs,
            "steps": len(programs) * len(seeds)}


def _dumps(desc, i):
    """Re-run two interpreters asking for the full dumps of program i; return the first differing window."""
    from sim import kernel
    programs = list(desc["programs"])
    if desc.get("repo_corpus"):
        programs = _corpus() + programs
    payload = json.dumps({"sources": [{"src": p["src"], "name": p.get("name", "c13_mod_%d" % j), "file": p.get("file")}
                                      for j, p in enumerate(programs)], "dump": [i]})
    outs = []
    for s in desc["hashseeds"][:2]:
        p = _spawn(s, payload)
        out, err = p.communicate(payload, timeout=RUN_TIMEOUT)
        outs.append(json.loads(out)["results"][i])
    a, b = outs[0].get("unparse", ""), outs[1].get("unparse", "")
    la, lb = a.splitlines(), b.splitlines()
    for x, y in zip(la, lb):
        if x != y:
            return {"seed_%s" % desc["hashseeds"][0]: x.strip()[:200], "seed_%s" % desc["hashseeds"][1]: y.strip()[:200]}
    return {"note": "python source renderings equal; ast.dump differs in attributes"}


def _construct_of(src):
    for k in ("nonlocal", "global", "setx", "match", "let", "defclass", "import", "with"):
        if "(" + k in src:
            return k
    return "other"


def extra_evidence(results):
    return {"explanation": "configuration sweep through the one nondeterminism source the property names (hash seed / fresh process); "
                           "with k names in a set the chance that s seeds agree by luck is <= (1/k!)^(s-1)"}


# ------------------------------------------------------------------ shrinking


def shrink(desc):
    progs = desc["programs"]
    seeds = desc["hashseeds"]
    if desc.get("repo_corpus") and progs:
        yield dict(desc, programs=[])
    if desc.get("repo_corpus"):
        yield dict(desc, repo_corpus=False)
    n = len(progs)
    size = n // 2
    while size >= 1:
        for i in range(0, n, size):
            yield dict(desc, programs=progs[:i] + progs[i + size:])
        size //= 2
    if len(seeds) > 2:
        for i in range(len(seeds)):
            yield dict(desc, hashseeds=seeds[:i] + seeds[i + 1:])
    for i, p in enumerate(progs):
        # drop top-level forms (split on blank-line-free "\n(" boundaries)
        chunks = p["src"].split("\n(")
        chunks = [chunks[0]] + ["(" + c for c in chunks[1:]]
        if len(chunks) > 1:
            for j in range(len(chunks)):
                yield dict(desc, programs=progs[:i] + [dict(p, src="\n".join(chunks[:j] + chunks[j + 1:]))] + progs[i + 1:])
