"""C40 -- the REPL evaluates incremental input like a script and tracks *1 *2 *3 *e.

The real hy.REPL runs through REPL.run() on a scripted terminal.  A session is a
history of inputs fed one line at a time: unique-valued forms, None-valued forms,
forms reading *1 *2 *3 *e, definitions and later uses, multi-line forms split at
every line break (inside lists, strings, bracket strings, f-string fields, with
blank and comment lines inside), and FAULT inputs: run-time exceptions, reader
errors, pattern-macro syntax errors, a macro that raises while expanding inside a
nested defn/let, a failing require, a result whose repr raises, KeyboardInterrupt
delivered by the terminal in the middle of a multi-line input, EOF.

A script evaluator runs in lockstep (fresh module, hy.eval of each completed
input in order, special variables copied from the REPL before each input).
Oracles after every line / input: continuation prompt; stdout; *1 *2 *3 against a
register model in which a failed input may count as absent or as None; *e; and
that inputs after any failure still evaluate as in the script.
"""
import contextlib
import io
import itertools
import os
import sys
import types

from sim.engines import repl as R

PROPERTY = "C40"
LEVEL = "exploration"
ISOLATE = False
RULE = ("one run = one REPL session of 5-25 inputs through REPL.run() with scripted raw_input; non-trivial = a session in "
        "which at least one input failed (or the terminal interrupted) and at least one later input was checked; distinct = "
        "distinct sequences of (input kind, line count, outcome class)")
REAL = ["hy.REPL (REPL.run, runsource, runcode, HyCommandCompiler, HyCompile), code.InteractiveConsole.interact/push, "
        "reader, compiler, hy.repr"]
STUB = ["the terminal: raw_input (lines, KeyboardInterrupt, EOF), stdout/stderr capture, HY_HISTORY file in a scratch dir",
        "script evaluator used as the oracle (hy.eval of each completed input in a fresh module)"]
ASSUMPTIONS = ["stand-alone blank or comment-only lines at the primary prompt are not generated (the statement does not say "
               "whether they are inputs)", "a failed input may count as absent or as None for the registers"]

_S = {}
STAR = {}


def setup_worker():
    if _S:
        return
    import hy
    import hy.repl
    _S["hy"] = hy
    _S["n"] = 0
    for i in (1, 2, 3):
        STAR[i] = hy.mangle("*%d" % i)
    STAR["e"] = hy.mangle("*e")
    os.environ["HY_HISTORY"] = os.path.join(os.environ.get("VERIF_SCRATCH", "/tmp"), "hy-history-%d" % os.getpid())
    os.environ.pop("HYSTARTUP", None)


def plan(tier):
    if tier == "thorough":
        return {"runs": 15000, "budget_s": 1500, "chunk": 20, "recheck": 12, "shrink_s": 150}
    return {"runs": 500, "budget_s": 150, "chunk": 6, "recheck": 6, "shrink_s": 60}


# ------------------------------------------------------------------ input generation


def gen_input(rng, u, defs):
    """u: unique token of this input; defs: names defined by earlier inputs."""
    r = rng.random()
    if r < 0.3:
        forms = [
            f"{u}", f"(+ {u} 100000)", f"\"s{u}\"", f"[{u} \"a\"]", f"(do (setv v{u} {u}) [v{u} v{u}])",
            f"#({u} 1)", f"{{\"k\" {u}}}", f"f\"f{{(+ {u} 0)}}\"", f"(setv a{u} 1) [a{u} {u}]", f":kw{u}",
            f"'(quoted {u})", f"(defreader rd{u} '[{u} \"rd\"]) #rd{u}", f"(defreader rn{u} (.parse-one-form &reader)) [#rn{u} {u}]",
        ]
        f = rng.choice(forms)
        if "defreader rd" in f:
            defs.append(("reader", u))
        return {"kind": "value", "lines": [f]}
    if r < 0.45:
        forms = [
            f"[{u}\n \"a\"\n ]", f"(do\n  (setv v{u} {u})\n\n  [v{u} 2])", f"\"s{u}\nx\"", f"#[[b{u}\nline2]]",
            f"f\"f{{(+ {u}\n 0)}}\"", f"(+ {u} ; comment (\n 100000)", f"#[x[br{u}\n]] still\n]x]", f"[{u} #_\n  ignored\n  2]",
            f"'\n[q {u}]", f"{{\"a\"\n\n\n {u}}}", f"(do\n  ; only a comment\n  \"c{u}\")",
        ]
        return {"kind": "value", "lines": rng.choice(forms).split("\n")}
    if r < 0.55:
        forms = ["None", f"(setv n{u} 1)", f"(print \"p{u}\")", f"(do\n  (print \"q{u}\")\n  None)", f"(import math)"]
        f = rng.choice(forms)
        return {"kind": "none", "lines": f.split("\n")}
    if r < 0.68:
        forms = ["[*1 *2 *3]", "*1", "(do *2)", "#(*3 *1)", "[*1\n *2\n *3]", "(type *e)", "[*1 *1]"]
        return {"kind": "regs", "lines": rng.choice(forms).split("\n")}
    if r < 0.74:
        if rng.random() < 0.25:
            # a global bound by THIS input (possibly right after a failed one); a later function declares it nonlocal
            defs.append(("gvar", u))
            return {"kind": "none", "lines": [f"(setv gv{u} {u})"]}
        if rng.random() < 0.5:
            defs.append(("fn", u))
            return {"kind": "none", "lines": [f"(defn f{u} [x] [x {u}])"]}
        defs.append(("mac", u))
        return {"kind": "none", "lines": rng.choice([[f"(defmacro m{u} [] [\"mac\" {u}])"],
                                                      [f"(defmacro m{u} []", f"  [\"mac\" {u}])"]])}
    if r < 0.8 and defs:
        k, d = rng.choice(defs)
        if k == "fn":
            return {"kind": "value", "lines": [f"(f{d} {u})"]}
        if k == "mac":
            return {"kind": "value", "lines": [rng.choice([f"[(m{d}) {u}]", f"(hy.eval '[(m{d}) {u}])"])]}
        if k == "reader":
            return {"kind": "value", "lines": [rng.choice([f"[#rd{d} {u}]", f"(do #rd{d}\n  [{u} #rd{d}])"])][0].split("\n")}
        if k == "gvar":
            lines = rng.choice([[f"(defn nlg{u} [] (nonlocal gv{d}) [gv{d} {u}]) (nlg{u})"],
                                [f"(defn nlg{u} []", f"  (nonlocal gv{d})", f"  [gv{d} {u}]) (nlg{u})"]])
            return {"kind": "value", "lines": lines, "expect": [d, u]}
        if k == "var":
            if rng.random() < 0.35:
                # a function that declares the global of an EARLIER input nonlocal: valid in a script (one compilation
                # unit), so valid at the REPL, on one line or split (each incomplete line abandons a compilation)
                lines = rng.choice([[f"(defn nl{u} [] (nonlocal a) [a {u}]) (nl{u})"],
                                    [f"(defn nl{u} []", "  (nonlocal a)", f"  [a {u}]) (nl{u})"],
                                    [f"(defn nl{u} [] (nonlocal a", f"  ) [a {u}]) (nl{u})"]])
                return {"kind": "value", "lines": lines, "expect": [77000, u]}
            return {"kind": "value", "lines": [rng.choice([f"[a {u}]", f"(do (setv b{u} a) [b{u} a {u}])", f"(+ a {u})"])]}
        return {"kind": "fail", "sub": "macro_in_scope",
                "lines": rng.choice([[f"(defn g{u} [] (let [a 1] (bad{d})))"], [f"(defn g{u} []", "  (let [a 1]", f"    (bad{d})))"],
                                     [f"(let [z{u} 2] (defn h{u} [] (bad{d})) z{u})"], [f"(let [a \"shadow\"] (bad{d}))"],
                                     [f"(defn k{u} [a] (defmacro lm{u} [] 1) (bad{d}))"],
                                     [f"(lfor a [1 2] (bad{d}))"], [f"(defclass C{u} [] (setv a (bad{d})))"]])}
    if r < 0.84:
        defs.append(("bad", u))
        return {"kind": "none", "lines": [f"(defmacro bad{u} [] (raise (ValueError \"boom{u}\")))"]}
    if r < 0.89:
        inner = rng.choice([f"(B{u})", f"(B{u})", f"(hy.models.List [1 (B{u})])", f"[1 (hy.models.Expression [(hy.models.Symbol \"f\") (B{u})])]"])
        return {"kind": "badrepr", "lines": [f"(do (defclass B{u} [] (defn __repr__ [self] (raise (RuntimeError \"norepr{u}\")))) {inner})"]}
    if r < 0.93:
        return {"kind": "interrupt", "lines": rng.choice([[f"(+ {u}"], [f"[{u}", " 2"], [f"\"open string {u}"], [f"#[[{u}", "x"]])}
    subs = [
        ("runtime", [f"(/ {u} 0)"]), ("runtime", [f"(raise (ValueError \"v{u}\"))"]), ("runtime", [f"undefined{u}"]),
        ("runtime", [f"(get [] {u})"]), ("runtime", ["(do", f"  (setv w{u} 5)", "  (/ 1 0))"]),
        ("reader", [")"]), ("reader", [f"(foo{u} ]"]), ("reader", [f"#nosuchreader{u} 1"]), ("reader", [f"[{u}", "  }"]),
        ("pattern", ["(if)"]), ("pattern", [f"(setv x{u})"]), ("pattern", ["(defn)"]), ("pattern", ["(do", "  (if))"]),
        ("require", [f"(require nonexistent-module-{u})"]), ("require", [f"(require hy.core.macros [no-such-macro-{u}])"]),
        ("runtime", [f"(setv ok{u} 1) (/ {u} 0)"]),
        ("scope", [f"(nonlocal zz{u})"]), ("scope", [f"(let [q{u} 1] (nonlocal zq{u}) q{u})"]), ("scope", ["(do", f"  (nonlocal zd{u}))"]),
        ("reader", [f"#rd-undefined{u}"]),
        # reader errors raised after look-ahead (the reader object is reused by the next input)
        ("reader", [f"(print :a{u}.b)"]), ("reader", [f"[1 a{u}..b]"]), ("reader", [f'f"x{u}}}"']), ("reader", [f"[{u} 1.2.3e]", ])[:2],
    ]
    sub, lines = rng.choice(subs)
    return {"kind": "fail", "sub": sub, "lines": lines}


def split_points(line):
    """Offsets of spaces that sit inside an open bracket and outside strings: breaking the line there leaves an
    incomplete first part, so the REPL must ask for more, and the text means the same."""
    pts, depth, in_str, i = [], 0, False, 0
    if "#[" in line or ";" in line:
        return pts
    while i < len(line):
        ch = line[i]
        if in_str:
            if ch == "\\":
                i += 2
                continue
            if ch == '"':
                in_str = False
        elif ch == '"':
            in_str = True
        elif ch in "([{":
            depth += 1
        elif ch in ")]}":
            depth -= 1
        elif ch == " " and depth > 0:
            pts.append(i)
        i += 1
    return pts


def split_lines(rng, inp):
    if inp["kind"] == "interrupt" or len(inp["lines"]) != 1:
        return inp
    line = inp["lines"][0]
    pts = split_points(line)
    if not pts:
        return inp
    chosen = sorted(rng.sample(pts, min(len(pts), rng.choice([1, 1, 2, 3]))))
    out, prev = [], 0
    for p_ in chosen:
        out.append(line[prev:p_])
        prev = p_ + 1
    out.append(line[prev:])
    # an empty continuation line would be read as "end of input" by nobody, but keep the lines non-empty anyway
    if any(not x.strip() for x in out):
        return inp
    return dict(inp, lines=out, split=True)


def generate(rng, tier):
    n = rng.randrange(5, 26)
    defs = []
    inputs = []
    if rng.random() < 0.4:
        # theme: a global `a`, a macro that raises, then the usual mix (which now often fails inside nested scopes
        # that bind `a`, and later reads `a`, defines and uses macros, ...)
        inputs.append({"kind": "none", "lines": ["(setv a 77000)"]})
        inputs.append({"kind": "none", "lines": ["(defmacro bad100 [] (raise (ValueError \"boom100\")))"]})
        defs += [("var", 0), ("bad", 100), ("bad", 100), ("var", 0)]
    themed = bool(inputs)
    inputs += [gen_input(rng, 101 + i, defs) for i in range(n)]
    # programs split at line breaks the generator did not write by hand: any space inside an open bracket
    inputs = [split_lines(rng, x) if rng.random() < 0.3 else x for x in inputs]
    if themed:
        # closing probes: a module-level macro defined after whatever failed must be a *module* macro, the global
        # `a` must still be the global
        inputs.append({"kind": "none", "lines": ["(defmacro m999 [] [\"mac\" 999])"]})
        inputs.append({"kind": "value", "lines": ["(hy.eval '[(m999) a 998])"]})
    # swarm over the REPL's own configuration: --spy (the Python translation is printed before each evaluation),
    # another output function, and allow_incomplete=False (an unfinished line is an error, not a continuation)
    strict = rng.random() < 0.1
    if strict:
        out = []
        for x in inputs:
            if x["kind"] == "interrupt":
                out.append({"kind": "fail", "sub": "incomplete", "lines": x["lines"][:1]})
            else:
                # the whole input arrives as one chunk of text (line breaks included)
                out.append(dict(x, lines=["\n".join(x["lines"])]))
        inputs = out or [{"kind": "value", "lines": ["901"]}]
    return {"inputs": inputs, "eof_mid": rng.random() < 0.1 and not strict, "spy": rng.random() < 0.2,
            "output_fn": rng.choice([None, None, None, "repr", "str"]), "strict": strict}


# ------------------------------------------------------------------ lockstep driver


def safe_repr(x):
    try:
        return repr(x)
    except BaseException:
        return "<unreprable %s>" % type(x).__name__


class Unsupported(Exception):
    pass


def ref_print(v, q=False, depth=0):
    """What hy.repr prints for the kinds of values the sessions produce, from the documented rules (one quote in front of
    an outermost model, container syntax) -- without calling hy.repr, whose process-global state belongs to the REPL
    under test."""
    M = _S["hy"].models
    if depth > 8:
        raise Unsupported()
    t = type(v)
    is_model = isinstance(v, M.Object) and t is not M.Keyword
    pre = ""
    if is_model and not q:
        pre, q = "'", True
    if v is None:
        return "None"
    if t is bool:
        return "True" if v else "False"
    if t is int or t is M.Integer:
        return pre + repr(int(v))
    if t is str or t is M.String:
        if t is M.String and v.brackets is not None:
            raise Unsupported()
        r = repr(str(v))
        return pre + (r if r.startswith('"') else '"' + r[1:-1].replace('"', '\\"') + '"')
    if t is M.Keyword:
        return ":" + v.name
    if t is M.Symbol:
        return pre + str(v)
    if t is list or t is M.List:
        return pre + "[" + " ".join(ref_print(x, q, depth + 1) for x in v) + "]"
    if t is tuple or t is M.Tuple:
        return pre + "#(" + " ".join(ref_print(x, q, depth + 1) for x in v) + ")"
    if t is M.Expression:
        return pre + "(" + " ".join(ref_print(x, q, depth + 1) for x in v) + ")"
    if t is dict:
        return "{" + "  ".join(ref_print(k, q, depth + 1) + " " + ref_print(x, q, depth + 1) for k, x in v.items()) + "}"
    raise Unsupported()


def contains_unprintable(v, depth=0):
    """True when v is, or holds, an instance of one of the classes the `badrepr` inputs define (their __repr__ raises)."""
    import re
    if depth > 6:
        return False
    t = type(v)
    if re.fullmatch(r"B\d+", t.__name__) and "__repr__" in t.__dict__:
        return True
    if isinstance(v, (list, tuple, set, frozenset)):
        return any(contains_unprintable(x, depth + 1) for x in v)
    if t is dict:
        return any(contains_unprintable(x, depth + 1) for kv in v.items() for x in kv)
    return False


def same(a, b):
    if a is None or b is None:
        return a is None and b is None
    return type(a).__name__ == type(b).__name__ and safe_repr(a) == safe_repr(b)


class Lockstep:
    def __init__(self, desc, modname):
        self.hy = _S["hy"]
        self.inputs = desc["inputs"]
        self.eof_mid = desc.get("eof_mid")
        self.spy = bool(desc.get("spy"))
        self.output_fn = {"repr": repr, "str": str}.get(desc.get("output_fn"), self.hy.repr)
        self.i = 0          # next input
        self.j = 0          # next line within the input
        self.M = types.ModuleType(modname + "_script")
        self.reader = self.hy.HyReader()
        self.results = []   # ("val", v) | ("none",) | ("fail",)
        self.viols = []
        self.events = []
        self.pending = None  # expectation for the input whose last line was just fed
        self.faults = {"runtime_exception": 0, "reader_error": 0, "pattern_macro_error": 0, "macro_raises_in_nested_scope": 0,
                       "failing_require": 0, "repr_raises": 0, "keyboard_interrupt_mid_input": 0, "eof_mid_input": 0}
        self.probes = {"inputs": 0, "lines": 0, "multiline_inputs": 0, "continuation_checks": 0, "register_checks": 0,
                       "inputs_checked_after_failure": 0, "register_reads_after_failure": 0}
        self.failed_before = False
        self.nontrivial = False
        self.seq = []
        self.prev_e = None
        self.stop = False

    def v(self, clause, sig, **detail):
        self.viols.append({"clause": clause, "sig": sig, "detail": detail})

    # -- script evaluator
    def script_eval(self, src, repl):
        hy = self.hy
        for k in (1, 2, 3):
            self.M.__dict__[STAR[k]] = repl.locals.get(STAR[k])
        if STAR["e"] in repl.locals:
            self.M.__dict__[STAR["e"]] = repl.locals[STAR["e"]]
        buf = io.StringIO()
        try:
            with contextlib.redirect_stdout(buf), contextlib.redirect_stderr(io.StringIO()):
                val = hy.eval(hy.read_many(src, reader=self.reader), self.M.__dict__, module=self.M)
            out = ("ok", val)
        except BaseException as e:
            out = ("exc", e)
        return out, buf.getvalue()

    def acceptable_registers(self):
        res = self.results
        fails = [k for k, r in enumerate(res) if r[0] == "fail"][-10:]
        cands = []
        for mask in itertools.product((0, 1), repeat=len(fails)):
            choice = dict(zip(fails, mask))
            seq = []
            for k, r in enumerate(res):
                if r[0] == "fail":
                    if choice.get(k, 0):
                        seq.append(None)
                else:
                    seq.append(r[1] if r[0] == "val" else None)
            regs = list(reversed(seq[-3:]))
            regs += [None] * (3 - len(regs))
            cands.append(regs)
        return cands

    def check_completed(self, prompt, o, e, repl):
        p = self.pending
        self.pending = None
        inp = p["input"]
        idx = p["idx"]
        kind = inp["kind"]
        self.probes["continuation_checks"] += 1
        if prompt != repl.ps1:
            self.v("continuation", "asks_for_more_after_complete_input", input=idx, lines=inp["lines"], prompt=prompt)
            self.stop = True
            return
        if kind == "interrupt":
            self.faults["keyboard_interrupt_mid_input"] += 1
            if "KeyboardInterrupt" not in e:
                self.v("interrupt", "no_keyboardinterrupt_message", input=idx, stderr=e[-200:])
            self.failed_before = True
            self.seq.append((kind, len(inp["lines"]), "interrupt"))
            self.events.append([idx, kind, len(inp["lines"]), "interrupt"])
        else:
            outcome, sout = p["script"]
            exp_out = sout
            if self.spy:
                # the translation and the delimiter line come first; they are printed when (and only when) the input compiled
                d = "-" * 30 + "\n"
                k = o.find(d)
                if k >= 0 and (k == 0 or o[k - 1] == "\n"):
                    self.probes["spy_translations"] = self.probes.get("spy_translations", 0) + 1
                    o = o[k + len(d):]
            failed = outcome[0] == "exc"
            repr_failed = False
            if not failed and outcome[1] is not None:
                if contains_unprintable(outcome[1]):
                    # decided structurally, not by calling the printer: the oracle must not share the printer's
                    # process-global state (cycle / quoting bookkeeping) with the REPL under test
                    repr_failed = True
                else:
                    try:
                        if self.output_fn is self.hy.repr:
                            try:
                                exp_out += ref_print(outcome[1]) + "\n"
                                self.probes["results_checked_against_reference_printer"] = self.probes.get("results_checked_against_reference_printer", 0) + 1
                            except Unsupported:
                                exp_out += self.output_fn(outcome[1]) + "\n"
                        else:
                            exp_out += self.output_fn(outcome[1]) + "\n"
                    except Exception:
                        repr_failed = True
            if failed:
                self.results.append(("fail",))
                sub = inp.get("sub")
                self.faults[{"runtime": "runtime_exception", "reader": "reader_error", "pattern": "pattern_macro_error",
                             "macro_in_scope": "macro_raises_in_nested_scope", "require": "failing_require", "scope": "pattern_macro_error"}.get(sub, "runtime_exception")] += 1
            elif outcome[1] is None:
                self.results.append(("none",))
            else:
                self.results.append(("val", outcome[1]))
            if repr_failed:
                self.faults["repr_raises"] += 1
            # (a) expected kind of outcome by construction
            if kind in ("value", "none", "badrepr") and failed:
                raise RuntimeError("harness: a good input failed in the script evaluator: %r -> %s" % (inp, safe_repr(outcome[1])[:300]))
            if kind == "fail" and not failed:
                raise RuntimeError("harness: fault input did not fail in the script evaluator: %r" % (inp,))
            # (b) stdout
            if o != exp_out:
                self.v("output", "stdout_differs" + ("_after_failure" if self.failed_before else ""), input=idx,
                       lines=inp["lines"], got=o[-300:], expected=exp_out[-300:])
            # (c) an error must be reported for failures, and only for failures
            if (failed or repr_failed) and not e.strip():
                self.v("output", "failure_not_reported", input=idx, lines=inp["lines"])
            if not (failed or repr_failed) and e.strip():
                self.v("script_like_evaluation", "error_reported_for_good_input" + ("_after_failure" if self.failed_before else ""),
                       input=idx, lines=inp["lines"], stderr=e[-400:])
            # (d) *e
            cur_e = repl.locals.get(STAR["e"])
            if failed or repr_failed:
                want_cls = "RuntimeError" if repr_failed else type(outcome[1]).__name__
                if cur_e is None or type(cur_e).__name__ != want_cls:
                    self.v("star_e", "wrong_exception", input=idx, lines=inp["lines"], got=safe_repr(cur_e)[:200], expected=want_cls)
                elif inp.get("sub") == "runtime" and str(cur_e) != str(outcome[1]):
                    self.v("star_e", "wrong_message", input=idx, got=str(cur_e)[:200], expected=str(outcome[1])[:200])
            elif cur_e is not self.prev_e:
                self.v("star_e", "changed_by_successful_input", input=idx, lines=inp["lines"], got=safe_repr(cur_e)[:200])
            self.prev_e = cur_e
            # (e) registers
            self.probes["register_checks"] += 1
            regs = [repl.locals.get(STAR[k]) for k in (1, 2, 3)]
            cands = self.acceptable_registers()
            if not any(all(same(a, b) for a, b in zip(regs, c)) for c in cands):
                # classify: does a unique value repeat?
                rep = any(regs[a] is not None and same(regs[a], regs[b]) for a, b in ((0, 1), (1, 2), (0, 2)))
                uniq_repeat = False
                if rep:
                    for a, b in ((0, 1), (1, 2), (0, 2)):
                        if regs[a] is not None and same(regs[a], regs[b]):
                            n = sum(1 for r in self.results if r[0] == "val" and same(r[1], regs[a]))
                            if n <= 1:
                                uniq_repeat = True
                after = self.failed_before or failed or repr_failed
                self.v("registers", ("repeat_after_failed_input" if uniq_repeat and after else
                                     "repeat" if uniq_repeat else "wrong_after_failure" if after else "wrong"),
                       input=idx, lines=inp["lines"], registers=[safe_repr(x)[:60] for x in regs],
                       acceptable=[[safe_repr(x)[:60] for x in c] for c in cands[:4]],
                       history=[r[0] for r in self.results][-6:])
            if self.failed_before:
                self.probes["inputs_checked_after_failure"] += 1
                self.nontrivial = True
                if kind == "regs":
                    self.probes["register_reads_after_failure"] += 1
            oc = ("fail:" + type(outcome[1]).__name__) if failed else ("reprfail" if repr_failed else "ok")
            self.seq.append((kind, len(inp["lines"]), oc))
            self.events.append([idx, kind, len(inp["lines"]), oc, len(o)])
            if failed or repr_failed:
                self.failed_before = True

    def __call__(self, prompt, o, e, repl):
        if self.stop:
            return None
        if self.pending is not None:
            self.check_completed(prompt, o, e, repl)
            if self.stop:
                return None
        elif self.j > 0:
            # in the middle of an input: the REPL must be asking for more
            self.probes["continuation_checks"] += 1
            if prompt != repl.ps2:
                inp = self.inputs[self.i]
                self.v("continuation", "no_continuation_on_incomplete_input", input=self.i, fed=inp["lines"][:self.j], prompt=prompt,
                       stderr=e[-300:])
                return None
        if self.i >= len(self.inputs):
            return None
        inp = self.inputs[self.i]
        if self.j == 0:
            if prompt != repl.ps1:
                self.v("continuation", "secondary_prompt_at_start_of_input", input=self.i, prompt=prompt)
                return None
            self.probes["inputs"] += 1
            if len(inp["lines"]) > 1:
                self.probes["multiline_inputs"] += 1
            if "expect" in inp:
                # value known by construction (the script evaluator compiles every input on its own, the REPL and a
                # script compile them as one unit)
                self.cur_script = (("ok", inp["expect"]), "")
            elif inp["kind"] != "interrupt":
                self.cur_script = self.script_eval("\n".join(inp["lines"]), repl)
        lines = inp["lines"]
        if self.eof_mid and self.i == len(self.inputs) - 1 and len(lines) > 1 and self.j == len(lines) - 1:
            self.faults["eof_mid_input"] += 1
            return None  # EOF in the middle of the last input
        if self.j < len(lines):
            line = lines[self.j]
            self.j += 1
            self.probes["lines"] += 1
            if self.j == len(lines) and inp["kind"] != "interrupt":
                self.pending = {"input": inp, "idx": self.i, "script": self.cur_script}
                self.i += 1
                self.j = 0
            return line
        # interrupt input: all its (incomplete) lines were fed; now the terminal interrupts
        self.pending = {"input": inp, "idx": self.i, "script": None}
        self.i += 1
        self.j = 0
        return R.INTERRUPT


def execute(desc):
    setup_worker()
    from sim import kernel
    _S["n"] += 1
    modname = "c40_console_%d" % _S["n"]
    drv = Lockstep(desc, modname)
    sys.modules[modname + "_script"] = drv.M
    try:
        kw = {}
        if desc.get("spy"):
            kw["spy"] = True
        if desc.get("output_fn"):
            kw["output_fn"] = desc["output_fn"]
        if desc.get("strict"):
            kw["allow_incomplete"] = False
        res = R.run_session(_S["hy"], modname, drv, kw)
    finally:
        sys.modules.pop(modname + "_script", None)
    if res["exit"]:
        drv.v("session", "unexpected_exit", exit=res["exit"])
    sigs = [kernel.digest(drv.seq)] if drv.nontrivial else []
    # one violation per (clause, sig)
    uniq = {}
    for v in drv.viols:
        uniq.setdefault((v["clause"], v["sig"]), v)
    return {"events": drv.events, "violations": list(uniq.values())[:6], "faults": drv.faults, "probes": drv.probes,
            "sigs": sigs, "steps": drv.probes["lines"]}


# ------------------------------------------------------------------ shrinking


def shrink(desc):
    inputs = desc["inputs"]
    if desc.get("eof_mid"):
        yield dict(desc, eof_mid=False)
    if desc.get("spy"):
        yield dict(desc, spy=False)
    if desc.get("strict") and all(len(x["lines"]) == 1 and x.get("sub") != "incomplete" for x in desc["inputs"]):
        yield dict(desc, strict=False)
    if desc.get("output_fn"):
        yield dict(desc, output_fn=None)
    n = len(inputs)
    size = n // 2
    while size >= 1:
        for i in range(0, n, size):
            yield dict(desc, inputs=inputs[:i] + inputs[i + size:])
        size //= 2
    for i, inp in enumerate(inputs):
        if len(inp["lines"]) > 1 and inp["kind"] != "interrupt":
            yield dict(desc, inputs=inputs[:i] + [dict(inp, lines=[" ".join(l for l in inp["lines"] if not l.strip().startswith(";"))])] + inputs[i + 1:])
        if inp["kind"] in ("value", "regs") and inp["lines"] != ["1"]:
            yield dict(desc, inputs=inputs[:i] + [{"kind": "value", "lines": [str(901 + i)]}] + inputs[i + 1:])
        if inp["kind"] == "fail" and inp["lines"] != [")"]:
            yield dict(desc, inputs=inputs[:i] + [{"kind": "fail", "sub": "reader", "lines": [")"]}] + inputs[i + 1:])
