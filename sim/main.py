"""CLI:  main.py <PROPERTY> [--tier quick|thorough] [--runs N] [--replay FILE]
             main.py selftest determinism|sensitivity [...]"""
import argparse
import os
import sys

HERE = os.path.dirname(os.path.abspath(__file__))
VERIF = os.path.dirname(HERE)
# main.py is run as a script: drop its own directory from sys.path so "sim" is only
# importable as a package (never loaded twice under two names).
sys.path[:] = [p for p in sys.path if os.path.abspath(p or ".") != HERE]
if VERIF not in sys.path:
    sys.path.insert(0, VERIF)


def main(argv=None):
    ap = argparse.ArgumentParser()
    ap.add_argument("prop")
    ap.add_argument("rest", nargs="*")
    ap.add_argument("--tier", default=os.environ.get("VERIF_TIER", "quick"))
    ap.add_argument("--runs", type=int)
    ap.add_argument("--budget", type=float)
    ap.add_argument("--workers", type=int)
    ap.add_argument("--replay")
    ap.add_argument("--digest-only")
    ap.add_argument("--no-recheck", action="store_true")
    a = ap.parse_args(argv)
    seed = int(os.environ.get("VERIF_SEED", "0") or 0)
    from sim import kernel

    if a.prop == "selftest":
        from sim import selftest

        return selftest.main(a.rest, seed)
    prop = a.prop.upper()
    if a.digest_only:
        return kernel.digest_only(prop, a.tier, seed, [int(x) for x in a.digest_only.split(",") if x])
    if a.replay:
        return kernel.replay(prop, a.replay)
    print(f"VERIF_SEED={seed} property={prop} tier={a.tier} repo={kernel.REPO}")
    return kernel.run_batch(prop, a.tier, seed, n_runs=a.runs, workers=a.workers, budget_s=a.budget,
                            recheck=not a.no_recheck)


if __name__ == "__main__":
    try:
        rc = main()
    except SystemExit:
        raise
    except BaseException:
        import traceback

        traceback.print_exc()
        print("HARNESS-FAULT: uncaught exception in driver", file=sys.stderr)
        rc = 2
    sys.stdout.flush()
    sys.exit(rc)
