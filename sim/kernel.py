"""Simulation kernel: seed derivation, isolated (forked) runs, event-log digests,
run pool, minimiser, replay files, known-findings matching, evidence writer,
exit codes.

Exit codes: 0 ok, 1 VIOLATION printed, 2 harness fault (never a VIOLATION).
"""
import faulthandler
import hashlib
import json
import os
import random
import select
import signal
import subprocess
import sys
import time
import traceback
from concurrent.futures import ProcessPoolExecutor, as_completed
import multiprocessing as mp

VERIF_DIR = os.path.dirname(os.path.dirname(os.path.abspath(__file__)))
REPO = os.environ.get("VERIF_REPO", "/repo")
PYTHON = "/venv/bin/python"
EVIDENCE_DIR = os.environ.get("VERIF_EVIDENCE_DIR") or os.path.join(VERIF_DIR, "evidence")
REPLAY_DIR = os.environ.get("VERIF_REPLAY_DIR") or os.path.join(VERIF_DIR, "replays")


class HarnessFault(Exception):
    pass


# --------------------------------------------------------------------------
# seeds


def derive_seed(verif_seed, prop, tier, idx):
    """One integer decides everything: run seed is a pure function of
    (VERIF_SEED, property, tier, run index); stable across processes and
    hash seeds."""
    h = hashlib.sha256(f"{verif_seed}|{prop}|{tier}|{idx}".encode()).digest()
    return int.from_bytes(h[:8], "big")


def canonical(obj):
    return json.dumps(obj, sort_keys=True, separators=(",", ":"), default=str)


def digest(obj):
    return hashlib.sha256(canonical(obj).encode()).hexdigest()[:24]


# --------------------------------------------------------------------------
# isolated execution: one forked child per run; only JSON crosses the pipe.


def _read_all(fd, timeout):
    chunks = []
    deadline = time.monotonic() + timeout
    while True:
        left = deadline - time.monotonic()
        if left <= 0:
            return None
        r, _, _ = select.select([fd], [], [], left)
        if not r:
            return None
        b = os.read(fd, 1 << 16)
        if not b:
            return b"".join(chunks)
        chunks.append(b)


def run_isolated(fn, arg, timeout=60.0):
    """Run fn(arg) in a forked child; returns its JSON-able result.
    Raises HarnessFault on crash/timeout of the child (never a violation)."""
    r, w = os.pipe()
    sys.stdout.flush()
    sys.stderr.flush()
    pid = os.fork()
    if pid == 0:
        code = 0
        try:
            os.close(r)
            try:
                res = fn(arg)
                data = json.dumps(res, default=str).encode()
            except BaseException:
                data = json.dumps({"harness_error": traceback.format_exc()}).encode()
            off = 0
            while off < len(data):
                off += os.write(w, data[off : off + (1 << 16)])
        except BaseException:
            code = 3
        finally:
            os._exit(code)
    os.close(w)
    try:
        data = _read_all(r, timeout)
    finally:
        os.close(r)
    if data is None:
        try:
            os.kill(pid, signal.SIGKILL)
        except OSError:
            pass
        os.waitpid(pid, 0)
        raise HarnessFault(f"run timed out after {timeout}s")
    _, status = os.waitpid(pid, 0)
    if not data:
        raise HarnessFault(f"child died without result (status {status})")
    res = json.loads(data)
    if isinstance(res, dict) and "harness_error" in res:
        raise HarnessFault(res["harness_error"])
    return res


# --------------------------------------------------------------------------
# per-run execution inside workers

_CHECK = None
_HISTORY = []  # run indices this process has executed so far (worker-local)


def _load_check(prop):
    import importlib

    return importlib.import_module(f"sim.checks.{prop.lower()}")


def _worker_init(prop):
    global _CHECK
    faulthandler.enable()
    _CHECK = _load_check(prop)
    if hasattr(_CHECK, "setup_worker"):
        _CHECK.setup_worker()


def _exec_desc(desc):
    """Executes one run description. A description {"__chain__": [d1..dn]} executes
    d1..dn in this order in one process and reports the last one's result (used when a
    violation only shows after earlier runs of the same worker process left state behind)."""
    if isinstance(desc, dict) and "__chain__" in desc:
        res = None
        for d in desc["__chain__"]:
            res = _exec_desc(d)
        return res
    res = _CHECK.execute(desc)
    res.setdefault("events", [])
    res.setdefault("violations", [])
    res.setdefault("faults", {})
    res.setdefault("probes", {})
    res.setdefault("sigs", [])
    res["digest"] = digest(res["events"])
    return res


def execute_desc(check, desc, timeout=None):
    global _CHECK
    _CHECK = check
    timeout = timeout or getattr(check, "RUN_TIMEOUT", 60.0)
    if getattr(check, "ISOLATE", False) or (isinstance(desc, dict) and desc.get("isolate")):
        return run_isolated(_exec_desc, desc, timeout)
    try:
        return json.loads(json.dumps(_exec_desc(desc), default=str))
    except HarnessFault:
        raise
    except BaseException:
        raise HarnessFault(traceback.format_exc())


def _run_chunk(args):
    prop, tier, verif_seed, indices, keep_events_for = args
    out = []
    for idx in indices:
        rs = derive_seed(verif_seed, prop, tier, idx)
        rng = random.Random(rs)
        t0 = time.monotonic()
        prior = list(_HISTORY)
        _HISTORY.append(idx)
        try:
            desc = _CHECK.generate(rng, tier)
            res = execute_desc(_CHECK, desc)
        except HarnessFault as e:
            out.append({"idx": idx, "harness_fault": str(e), "run_seed": rs})
            continue
        except Exception:
            out.append({"idx": idx, "harness_fault": traceback.format_exc(), "run_seed": rs})
            continue
        rec = {
            "idx": idx,
            "run_seed": rs,
            "digest": res["digest"],
            "violations": res["violations"],
            "faults": res["faults"],
            "probes": res["probes"],
            "sigs": res["sigs"],
            "sim_seconds": res.get("sim_seconds", 0),
            "steps": res.get("steps", 0),
            "wall": time.monotonic() - t0,
        }
        if res["violations"] or idx in keep_events_for:
            rec["desc"] = desc
            rec["events"] = res["events"][:400]
        if res["violations"]:
            rec["prior"] = prior
        out.append(rec)
    return out


# --------------------------------------------------------------------------
# known findings


def load_known():
    p = os.path.join(VERIF_DIR, "known_findings.json")
    if not os.path.exists(p):
        return []
    with open(p) as f:
        return json.load(f).get("findings", [])


def known_match(known, prop, viol):
    for k in known:
        if k.get("status") != "known" or k.get("property") != prop:
            continue
        if k.get("clause") == viol.get("clause") and k.get("signature") == viol.get("sig"):
            return k
    return None


# --------------------------------------------------------------------------
# minimiser


def _fails_same(check, desc, clause, known, prop, sig=None):
    """Executed from the driver process: always in a forked child, so the driver
    itself never carries state from a run."""
    global _CHECK
    _CHECK = check
    try:
        res = run_isolated(_exec_desc, desc, getattr(check, "RUN_TIMEOUT", 60.0) * 3)
    except HarnessFault:
        return None
    for v in res["violations"]:
        if v.get("clause") == clause and (sig is None or v.get("sig") == sig) and not known_match(known, prop, v):
            return res
    return None


def minimise(check, desc, clause, known, prop, budget_s=60.0, log=None, sig=None):
    """Greedy delta-debugging driven by the check's own shrink() candidates:
    a candidate is kept only if it still fails the same oracle clause."""
    if not hasattr(check, "shrink"):
        return desc
    t_end = time.monotonic() + budget_s

    def candidates(d):
        if isinstance(d, dict) and "__chain__" in d:
            ch = d["__chain__"]
            pre, last = ch[:-1], ch[-1]
            if not pre:
                yield last
                return
            yield last
            size = max(1, len(pre) // 2)
            while size >= 1:
                for i in range(0, len(pre), size):
                    yield {"__chain__": pre[:i] + pre[i + size:] + [last]}
                if size == 1:
                    break
                size //= 2
            if len(pre) <= 3:
                for c in check.shrink(last):
                    yield {"__chain__": pre + [c]}
                for j, pj in enumerate(pre):
                    for c in check.shrink(pj):
                        yield {"__chain__": pre[:j] + [c] + pre[j + 1:] + [last]}
        else:
            yield from check.shrink(d)
    improved = True
    steps = 0
    while improved and time.monotonic() < t_end:
        improved = False
        for cand in candidates(desc):
            if time.monotonic() >= t_end:
                break
            steps += 1
            if canonical(cand) == canonical(desc):
                continue
            if _fails_same(check, cand, clause, known, prop, sig) is not None:
                desc = cand
                improved = True
                break
    if log is not None:
        log["shrink_steps"] = steps
    return desc


# --------------------------------------------------------------------------
# batch driver


def fresh_env(hashseed=None):
    env = dict(os.environ)
    env.pop("PYTHONDONTWRITEBYTECODE", None)
    env["PYTHONPATH"] = REPO + os.pathsep + VERIF_DIR
    if hashseed is not None:
        env["PYTHONHASHSEED"] = str(hashseed)
    return env


def recheck_fresh(prop, tier, verif_seed, indices, hashseed=0, timeout=600):
    """Re-execute the given run indices in a fresh interpreter under another
    PYTHONHASHSEED and return {idx: digest}."""
    cmd = [PYTHON, os.path.join(VERIF_DIR, "sim", "main.py"), prop, "--tier", tier,
           "--digest-only", ",".join(map(str, indices))]
    env = fresh_env(hashseed)
    env["VERIF_SEED"] = str(verif_seed)
    p = subprocess.run(cmd, env=env, capture_output=True, text=True, timeout=timeout, cwd=VERIF_DIR)
    if p.returncode != 0:
        raise HarnessFault(f"fresh-interpreter recheck failed rc={p.returncode}: {p.stderr[-2000:]}")
    out = {}
    for line in p.stdout.splitlines():
        if line.startswith("DIGEST "):
            _, i, d = line.split()
            out[int(i)] = d
    return out


def _write_and_replay_fresh(prop, verif_seed, path, doc, run=True):
    """Writes the replay file and (run=True) replays it in a fresh interpreter; True iff that reports the violation."""
    doc = dict(doc)
    with open(path, "w") as f:
        json.dump(doc, f, indent=1, default=str)
    if not run:
        return False
    # exactly what a user runs: the entry script, i.e. a fresh scratch directory and hy compiled afresh
    env = dict(os.environ)
    env["VERIF_SEED"] = str(verif_seed)
    env["VERIF_REPO"] = REPO
    for k in ("VERIF_SCRATCH", "PYTHONPYCACHEPREFIX"):
        env.pop(k, None)
    try:
        p = subprocess.run([os.path.join(VERIF_DIR, "verif"), prop, "--replay", path], env=env,
                           capture_output=True, text=True, timeout=600, cwd=VERIF_DIR)
    except subprocess.TimeoutExpired:
        return False
    return p.returncode == 1 and f"VIOLATION property={prop}" in p.stdout


def run_batch(prop, tier, verif_seed, n_runs=None, workers=None, budget_s=None, recheck=True):
    t_start = time.monotonic()
    check = _load_check(prop)
    plan = check.plan(tier)
    n_runs = n_runs or plan["runs"]
    budget_s = budget_s or plan.get("budget_s", 600)
    workers = workers or int(os.environ.get("VERIF_WORKERS", min(16, os.cpu_count() or 4)))
    known = load_known()
    faulthandler.enable()

    # main process is set up like a worker so replays/minimisation can fork from it
    _worker_init(prop)

    n_samples = 6
    keep = set(range(n_samples))
    chunk = max(1, min(plan.get("chunk", 20), n_runs // (workers * 4) or 1))
    chunks = [list(range(i, min(i + chunk, n_runs))) for i in range(0, n_runs, chunk)]
    results = {}
    harness_faults = []
    stopped_early = False
    ctx = mp.get_context("fork")
    with ProcessPoolExecutor(max_workers=workers, mp_context=ctx, initializer=_worker_init, initargs=(prop,)) as ex:
        futs = {}
        it = iter(chunks)
        pending = set()

        def submit_more():
            nonlocal stopped_early
            while len(pending) < workers * 2:
                if time.monotonic() - t_start > budget_s:
                    stopped_early = True
                    return
                try:
                    c = next(it)
                except StopIteration:
                    return
                f = ex.submit(_run_chunk, (prop, tier, verif_seed, c, keep))
                pending.add(f)

        submit_more()
        from concurrent.futures import wait, FIRST_COMPLETED

        while pending:
            done, _ = wait(pending, timeout=plan.get("chunk_timeout", 900), return_when=FIRST_COMPLETED)
            if not done:
                harness_faults.append("worker pool stalled")
                for f in pending:
                    f.cancel()
                break
            for f in done:
                pending.discard(f)
                try:
                    for rec in f.result():
                        results[rec["idx"]] = rec
                except Exception as e:  # worker died
                    harness_faults.append(f"worker failure: {e!r}")
            if not harness_faults:
                submit_more()
            elif len(harness_faults) > 3:
                break

    order = sorted(results)
    for i in order:
        if "harness_fault" in results[i]:
            harness_faults.append(f"run {i}: {results[i]['harness_fault'][-1500:]}")

    # fold in index order
    faults, probes, sigs = {}, {}, {}
    sim_seconds = 0.0
    steps = 0
    samples = []
    viol_runs = []
    executed = 0
    for i in order:
        r = results[i]
        if "harness_fault" in r:
            continue
        executed += 1
        for k, v in r["faults"].items():
            faults[k] = faults.get(k, 0) + v
        for k, v in r["probes"].items():
            probes[k] = probes.get(k, 0) + v
        for s in r["sigs"]:
            sigs[s] = sigs.get(s, 0) + 1
        sim_seconds += r.get("sim_seconds", 0)
        steps += r.get("steps", 0)
        if i in keep and "desc" in r:
            samples.append({"run_index": i, "run_seed": r["run_seed"], "desc": r["desc"],
                            "events_head": r.get("events", [])[:40]})
        if r["violations"]:
            viol_runs.append(i)

    # determinism recheck of a fixed sample in a fresh interpreter
    det = {"rechecked": 0, "matched": 0}
    if recheck and executed and not harness_faults:
        idxs = [i for i in order if "harness_fault" not in results[i]]
        pick = idxs[:: max(1, len(idxs) // plan.get("recheck", 8))][: plan.get("recheck", 8)]
        try:
            fresh = recheck_fresh(prop, tier, verif_seed, pick, hashseed=0)
            for i in pick:
                det["rechecked"] += 1
                if fresh.get(i) == results[i]["digest"]:
                    det["matched"] += 1
                else:
                    harness_faults.append(
                        f"nondeterminism: run {i} digest {results[i]['digest']} vs fresh {fresh.get(i)}")
        except (HarnessFault, subprocess.TimeoutExpired) as e:
            harness_faults.append(f"recheck: {e}")

    # violations: classify known / new; minimise and write replay for new ones
    known_hits = {}
    unconfirmed = []
    new_reports = []
    seen_new_sigs = set()
    os.makedirs(REPLAY_DIR, exist_ok=True)
    shrink_budget = plan.get("shrink_s", 60)
    for i in viol_runs:
        r = results[i]
        for v in r["violations"]:
            k = known_match(known, prop, v)
            if k:
                known_hits.setdefault(k["signature"] + "|" + k["clause"], [k, 0])[1] += 1
                continue
            key = (v.get("clause"), v.get("sig"))
            if key in seen_new_sigs or len(new_reports) >= 3:
                seen_new_sigs.add(key)
                continue
            seen_new_sigs.add(key)
            desc = r["desc"]
            keep_sig = v.get("sig") if getattr(check, "SHRINK_KEEP_SIG", True) else None
            confirm = _fails_same(check, desc, v["clause"], known, prop, keep_sig)
            if confirm is None and keep_sig is not None:
                keep_sig = None
                confirm = _fails_same(check, desc, v["clause"], known, prop)
            if confirm is None and r.get("prior"):
                # state left behind by earlier runs of the same worker: replay the worker's history
                prior = r["prior"][-300:]
                chain = [check.generate(random.Random(derive_seed(verif_seed, prop, tier, j)), tier) for j in prior]
                desc = {"__chain__": chain + [desc]}
                confirm = _fails_same(check, desc, v["clause"], known, prop)
            if confirm is None:
                unconfirmed.append(f"violation in run {i} did not reproduce on re-execution: {str(v)[:300]}")
                continue
            log = {}
            try:
                small = minimise(check, desc, v["clause"], known, prop, shrink_budget if not new_reports else shrink_budget / 4,
                                 log, keep_sig)
            except Exception:
                # a fault in a check's shrinker must never hide a confirmed violation: report it unminimised
                log["shrinker_fault"] = traceback.format_exc()[-600:]
                small = desc
            final = _fails_same(check, small, v["clause"], known, prop, keep_sig)
            if final is None:
                small, final = desc, confirm
            cands = [x for x in final["violations"] if x.get("clause") == v["clause"] and not known_match(known, prop, x)]
            fv = ([x for x in cands if keep_sig is None or x.get("sig") == keep_sig] or cands)[0]
            path = os.path.join(REPLAY_DIR, f"{prop}-{verif_seed}-{tier}-{i}-{len(new_reports)}.json")
            doc = {"property": prop, "verif_seed": verif_seed, "tier": tier, "run_index": i,
                   "run_seed": r["run_seed"], "clause": fv["clause"], "sig": fv.get("sig"),
                   "detail": fv.get("detail"), "desc": small, "original_desc": desc,
                   "events": final["events"][:400], "shrink": log}
            # the replay file must fail the same way in a fresh interpreter, not only in a fork of this driver
            # (a violation may depend on heap state, e.g. id() reuse): try the minimised, then the original description
            fresh_ok = _write_and_replay_fresh(prop, verif_seed, path, doc)
            if not fresh_ok and canonical(small) != canonical(desc):
                fresh_ok = _write_and_replay_fresh(prop, verif_seed, path, dict(doc, desc=desc, events=confirm["events"][:400]))
                if not fresh_ok:
                    _write_and_replay_fresh(prop, verif_seed, path, doc, run=False)
            new_reports.append((path, fv, fresh_ok))

    if unconfirmed and not new_reports:
        harness_faults.extend(unconfirmed[:3])
    wall = time.monotonic() - t_start
    for key, (k, n) in sorted(known_hits.items()):
        print(f"KNOWN-FINDING: property={prop} {k['what']} (hit {n}x this run)")
    new_reports.sort(key=lambda rep: not rep[2])  # stable: those whose replay file reproduces in a fresh process first
    for path, fv, fresh_ok in new_reports:
        print(f"VIOLATION property={prop} replay={path}")
        print(f"  clause={fv['clause']} sig={fv.get('sig')} detail={str(fv.get("detail"))[:400]}")
        if not fresh_ok:
            print("  note: confirmed by re-execution in forked children of this driver, but the replay file does not "
                  "reproduce it in a fresh interpreter (outcome depends on process heap state)")

    # evidence
    nontrivial = len(sigs)
    ev = {
        "property_id": prop,
        "tier": tier,
        "seed": verif_seed,
        "level": check.LEVEL,
        "coverage": {
            "evaluations": executed,
            "planned_runs": n_runs,
            "stopped_at_budget": stopped_early,
            "distinct_nontrivial": nontrivial,
            "rule": check.RULE,
            "samples": samples[:n_samples] or [{"note": "no sample retained"}],
            "runs_per_hour": int(executed / wall * 3600) if wall > 0 else 0,
            "workers": workers,
            "simulated_seconds": round(sim_seconds, 3),
            "simulated_steps": steps,
            "faults_fired": dict(sorted(faults.items())),
            "probes": dict(sorted(probes.items())),
            "determinism_recheck": det,
            "real_components": check.REAL,
            "stubbed_components": check.STUB,
            "known_findings_hit": {k: n for k, (_, n) in known_hits.items()},
            "harness_faults": harness_faults[:5],
        },
        "assumptions": getattr(check, "ASSUMPTIONS", []),
        "wall_s": round(wall, 2),
        "violations": len(new_reports),
    }
    if hasattr(check, "extra_evidence"):
        ev["coverage"].update(check.extra_evidence(results))
    os.makedirs(EVIDENCE_DIR, exist_ok=True)
    with open(os.path.join(EVIDENCE_DIR, f"{prop}.json"), "w") as f:
        json.dump(ev, f, indent=1, default=str)

    print(f"{prop} {tier}: runs={executed}/{n_runs} wall={wall:.1f}s distinct_nontrivial={nontrivial} "
          f"faults={sum(faults.values())} known_hits={sum(n for _, n in known_hits.values())} "
          f"violations={len(new_reports)} recheck={det['matched']}/{det['rechecked']}")
    for h in harness_faults[:5]:
        print("HARNESS-FAULT:", h, file=sys.stderr)
    if new_reports:
        return 1
    if harness_faults:
        return 2
    min_runs = max(1, int(n_runs * plan.get("min_fraction", 0.2)))
    if executed < min_runs:
        print(f"HARNESS-FAULT: only {executed} of {n_runs} planned runs finished within budget", file=sys.stderr)
        return 2
    return 0


def digest_only(prop, tier, verif_seed, indices):
    _worker_init(prop)
    for idx in indices:
        rs = derive_seed(verif_seed, prop, tier, idx)
        desc = _CHECK.generate(random.Random(rs), tier)
        res = execute_desc(_CHECK, desc)
        print(f"DIGEST {idx} {res['digest']}")
    return 0


def replay(prop, path):
    _worker_init(prop)
    with open(path) as f:
        doc = json.load(f)
    known = load_known()
    res = execute_desc(_CHECK, doc["desc"])
    hit = [v for v in res["violations"] if v.get("clause") == doc["clause"] and v.get("sig") == doc.get("sig")] or \
          [v for v in res["violations"] if v.get("clause") == doc["clause"]]
    if hit:
        k = known_match(known, prop, hit[0])
        if k:
            print(f"KNOWN-FINDING: property={prop} {k['what']}")
            print(f"replay reproduces clause={hit[0]['clause']} sig={hit[0].get('sig')}")
            return 0
        print(f"VIOLATION property={prop} replay={path}")
        print(f"  clause={hit[0]['clause']} sig={hit[0].get('sig')} detail={str(hit[0].get('detail'))[:1000]}")
        return 1
    print(f"replay of {path}: clause {doc['clause']} NOT reproduced; violations now: {res['violations'][:3]}")
    return 0
